"""Self-tests of the machinery against things that do not depend on formak."""
import mpmath as mp

from fv import refmodel as R
from fv import space


def main():
    bad = []
    # ref derivative vs central differences of ref_eval, every grammar production
    # (the deep "many temporaries" chains are left out: sympy.N re-evaluates shared sub-expressions exponentially often)
    defs = space.family_ops("thorough") + [d for d in space.family_cse("quick") if "manytemps" not in d["name"]]
    n = 0
    for d in defs:
        st, ca, ct = space.def_symbols(d)
        names = st + ca + ct
        for env in space.some_points(names, 2):
            for _, ast in d["model"]:
                try:
                    for w in names + ["dt"]:
                        v, dv = R.ref_eval_d(ast, env, w)
                        h = mp.mpf(2) ** -40
                        e1 = dict(env); e1[w] = mp.mpf(env[w]) + h
                        e2 = dict(env); e2[w] = mp.mpf(env[w]) - h
                        fd = (R.ref_eval(ast, e1) - R.ref_eval(ast, e2)) / (2 * h)
                        n += 1
                        if abs(fd - dv) > mp.mpf(10) ** -15 * max(1, abs(dv)):
                            bad.append(f"ref_jac {d['name']} d/d{w}: {dv} vs fd {fd}")
                except R.Singular:
                    pass
    # ref_eval vs sympy.N for every grammar production
    import sympy
    from fv import pyimpl
    dt = sympy.Symbol("dt")
    for d in defs:
        st, ca, ct = space.def_symbols(d)
        names = st + ca + ct
        for env in space.some_points(names, 1):
            for _, ast in d["model"]:
                try:
                    v = R.ref_eval(ast, env)
                except R.Singular:
                    continue
                e = pyimpl.to_sympy(ast, dt)
                sv = sympy.N(e.subs({sympy.Symbol(k): sympy.Rational(val) for k, val in env.items()}), 40)
                n += 1
                if abs(mp.mpf(str(sv)) - v) > mp.mpf(10) ** -30 * max(1, abs(v)):
                    bad.append(f"ref_eval {d['name']}: {v} vs sympy {sv}")
    # matrix inverse
    A = R.M([[2, 1, 0.5], [1, 3, -0.25], [0.5, -0.25, 1.5]])
    I = R.mul(A, R.inv(A))
    if R.maxabs(R.sub(I, R.eye(3))) > mp.mpf(10) ** -40:
        bad.append("inverse")
    # scalar EKF closed forms
    p, q, x, z = mp.mpf("0.75"), mp.mpf("0.5"), mp.mpf("1.25"), mp.mpf("2.0")
    xp, Pp, innov, S, nis = R.ekf_update([x], [[p]], [[mp.mpf(1)]], [[q]], [z], [x])
    if abs(Pp[0][0] - p * q / (p + q)) > 1e-40 or abs(xp[0] - (q * x + p * z) / (p + q)) > 1e-40:
        bad.append("scalar ekf")
    if abs(nis - (z - x) ** 2 / (p + q)) > 1e-40:
        bad.append("scalar nis")
    for b in bad[:20]:
        print("SELFTEST FAIL:", b)
    print(f"selftest: {n} reference checks, {len(bad)} failures")
    return 2 if bad else 0
