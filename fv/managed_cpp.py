"""Build and drive cppdrivers/managed_rec.cpp (recording Impls compiled against the REAL ManagedFilter.h)."""
from __future__ import annotations

import os
import subprocess

from fv import core, cppharness

H_FRACTIONS = {0.1: (1, 10), 0.05: (1, 20), 0.01: (1, 100), 0.25: (1, 4), 0.3: (3, 10), 1.0: (1, 1), 1.0 / 30.0: (1, 30), 0.125: (1, 8),
               1.0 / 3000000.0: (1, 3000000), 1.0 / 30000.0: (1, 30000)}
COMBOS = {0: (True, True), 1: (True, False), 2: (False, True), 3: (False, False)}  # (control, calibration)


def build(sdir, combo):
    exe = os.path.join(sdir, f"rec{combo}")
    cmd = [cppharness.CXX, "-std=c++17", "-O1", "-w", f"-DCOMBOS={1 << combo}",
           "-I", os.path.join(core.REPO, "cpp/runtime/include"),
           os.path.join(core.VERIF, "cppdrivers", "managed_rec.cpp"), "-o", exe]
    p = subprocess.run(cmd, capture_output=True, text=True, timeout=300)
    return (exe if p.returncode == 0 else None), p.stderr


def run(exe, combo, h, script_lines):
    hn, hd = H_FRACTIONS[h]
    text = f"{combo} {hn} {hd}\n" + "\n".join(script_lines) + "\n"
    p = subprocess.run([exe], input=text, capture_output=True, text=True, timeout=600)
    return p.returncode, p.stdout, p.stderr


def split_ticks(stdout):
    """-> list of ('NEW',) | ('TICK', [log entries], ret_id); log entry: ('P', id, dt, inid, ctl, cal) | ('S', id, key, zid, inid, cal)"""
    out = []
    cur = []
    for line in stdout.splitlines():
        p = line.split()
        if not p:
            continue
        if p[0] == "OK":
            out.append(("NEW",))
            cur = []
        elif p[0] == "P":
            cur.append(("P", int(p[1]), float(p[2]), int(p[3]), int(p[4]), int(p[5])))
        elif p[0] == "S":
            cur.append(("S", int(p[1]), int(p[2]), int(p[3]), int(p[4]), int(p[5])))
        elif p[0] == "RET":
            out.append(("TICK", cur, int(p[1])))
            cur = []
    return out


def de_bruijn_pairs(n):
    """cyclic sequence over range(n) containing every ordered pair (incl. loops) exactly once as consecutive items"""
    a = [0] * (n * 2)
    seq = []

    def db(t, p):
        if t > 2:
            if 2 % p == 0:
                seq.extend(a[1:p + 1])
        else:
            a[t] = a[t - p]
            db(t + 1, p)
            for j in range(a[t - p] + 1, n):
                a[t] = j
                db(t + 1, t)

    db(1, 1)
    return seq
