"""One-call comparisons of the real Python filter with the reference EKF (used by the interleaving cases of C04/C05)."""
from __future__ import annotations

import numpy as np

from fv import pyimpl
from fv import refmodel as R

REL = 1e-9


def predict_fails(ekf, ref, env, P):
    """[] if process_model(env) equals x' = f, P' = G P G^T + V M V^T; else short descriptions"""
    full = ref.env(env)
    try:
        fx, Pn = ref.predict(full, R.M(P))
    except R.Singular:
        return None
    state = ekf.State(**{s: env[s] for s in reversed(ref.st)})
    control = ekf.Control(**{s: env[s] for s in ref.ct})
    cov = ekf.Covariance.from_data(np.array(P, dtype=float))
    out = ekf.process_model(env["dt"], state, cov, control)
    scale = float(max(R.maxabs(Pn), 1))
    bad = []
    got = pyimpl.vec_by_name(out.state)
    for i, s in enumerate(ref.st):
        if not pyimpl.close(got[s], fx[i], REL):
            bad.append(f"state '{s}' = {got[s]!r}, f(x,u) = {float(fx[i])!r}")
            break
    n = len(ref.st)
    for i in range(n):
        for j in range(n):
            if not pyimpl.close(out.covariance.data[i, j], Pn[i][j], REL, scale):
                bad.append(f"P'[{i},{j}] = {out.covariance.data[i, j]!r}, G P G^T + V M V^T gives {float(Pn[i][j])!r}")
                return bad
    return bad


def update_fails(ekf, ref, key, env, P, offset):
    full = ref.env(env)
    try:
        hx = ref.hx(key, full)
    except R.Singular:
        return None
    zf = [float(h) + offset * (1 + 0.5 * i) for i, h in enumerate(hx)]
    z = [R.mp.mpf(v) for v in zf]
    xp, Pp, innov, S, nis = ref.update(key, full, R.M(P), z)
    state = ekf.State(**{s: env[s] for s in ref.st})
    cov = ekf.Covariance.from_data(np.array(P, dtype=float))
    reading = ekf.make_reading(key, **{r: zf[i] for i, r in enumerate(ref.readings(key))})
    out = ekf.sensor_model(state, cov, sensor_key=key, sensor_reading=reading)
    scale = float(max(R.maxabs(R.M(P)), 1))
    bad = []
    got = pyimpl.vec_by_name(out.state)
    for i, s in enumerate(ref.st):
        if not pyimpl.close(got[s], xp[i], REL, scale):
            bad.append(f"sensor {key}: x+['{s}'] = {got[s]!r}, x + K(z-h) = {float(xp[i])!r}")
            break
    n = len(ref.st)
    for i in range(n):
        for j in range(n):
            if not pyimpl.close(out.covariance.data[i, j], Pp[i][j], REL, scale):
                bad.append(f"sensor {key}: P+[{i},{j}] = {out.covariance.data[i, j]!r}, P - K H P = {float(Pp[i][j])!r}")
                return bad
    gi, gS = ekf.innovations.get(key), ekf.sensor_prediction_uncertainty.get(key)
    m = len(z)
    if gi is None or any(not pyimpl.close(gi[i, 0], innov[i], REL) for i in range(m)):
        bad.append(f"sensor {key}: recorded innovation {None if gi is None else gi.ravel().tolist()} != {[float(v) for v in innov]}")
    if gS is None or any(not pyimpl.close(gS[i, j], S[i][j], REL, float(max(R.maxabs(S), 1))) for i in range(m) for j in range(m)):
        bad.append(f"sensor {key}: recorded S differs from H P H^T + Q")
    return bad


def interleave(defs, seed, mode):
    """several different filters alive in ONE process, calls alternated A, B, C, A, B, C, ... at changing points (and finally
    the first point again): no filter may be disturbed by calls made on another one. mode: 'predict' | 'update'"""
    from fv import space
    from fv.ekfref import RefEKF, cov_menu
    objs = []
    for d in defs:
        objs.append((d, pyimpl.py_ekf(d, {"innovation_filtering": None}), RefEKF(d)))
    fails, n = [], 0
    rounds = 4
    for rnd in list(range(rounds)) + [0]:
        for d, ekf, ref in objs:
            pts = list(space.some_points(ref.st + ref.ct, rounds, seed, dts=(0.125, -0.25)))
            env = pts[rnd]
            P = cov_menu(len(ref.st), "quick")[2 if rnd % 2 else 1][1]
            try:
                if mode == "predict":
                    bad = predict_fails(ekf, ref, env, P)
                    n += 1
                else:
                    bad = []
                    for key in sorted(ref.h):
                        b = update_fails(ekf, ref, key, env, P, 0.25 if rnd % 2 else -0.5)
                        n += 1
                        bad += b or []
            except Exception as e:
                bad = [f"raised {type(e).__name__}: {str(e)[:150]}"]
            if bad:
                fails.append({"key": f"interleaved-{mode}", "what": f"{d['name']} (one of {len(objs)} filters alive in one process, round {rnd}): "
                              f"{bad[0]} at {env}"})
                return n, fails
    return n, fails


def _snapshot(uim, pn, sens, sn, cms):
    """structural fingerprint of everything the caller handed over (sympy srepr is exact and order-stable for dict items)"""
    import sympy
    sr = sympy.srepr

    def dd(m):
        return [(sr(k) if not isinstance(k, str) else k, dd(v) if isinstance(v, dict) else (sr(v) if hasattr(v, "free_symbols") else repr(v)))
                for k, v in m.items()]

    def coll(c):
        return [sr(x) for x in (sorted(c, key=str) if isinstance(c, (set, frozenset)) else list(c))]

    return {"state_model": dd(uim.state_model), "state": coll(uim.state), "control": coll(uim.control), "calibration": coll(uim.calibration),
            "dt": sr(uim.dt), "process_noise": dd(pn), "sensor_models": dd(sens), "sensor_noises": dd(sn),
            "calibration_maps": [dd(c) for c in cms]}


def shared_inputs(d, seed, aspects=("model", "jacobians", "predict", "update")):
    """ONE set of caller-side objects (ui.Model, process-noise dict, sensor-model dict, sensor-noise dict) is compiled several
    times with DIFFERENT calibration maps and configurations; every compiled object must compute its own calibration's model
    (checked right after compiling and again after all were compiled). Whether compiling modified what the caller handed over is
    noted in the message of a wrong value (it is the usual cause) but is not a violation by itself. Returns (n, fails)."""
    from formak import python as fpy
    from fv import space
    from fv.ekfref import RefEKF, cov_menu

    uim = pyimpl.ui_model(d)
    pn, sens, sn = pyimpl.pnoise(d), pyimpl.sensors(d), pyimpl.snoise(d)
    cal_names = [k for k, _ in d["calmap"]]
    variants = []
    for vi, (shift, cse) in enumerate([(0.0, True), (1.75, False), (-0.875, True), (0.0, False)]):
        cm = [[k, v + shift * (1 + 0.5 * i)] for i, (k, v) in enumerate(d["calmap"])]
        variants.append((dict(d, calmap=cm, name=f"{d['name']}#cal{vi}"), cse))
    cms = [{pyimpl.sym(k, d.get("assume")): v for k, v in dv["calmap"]} for dv, _ in variants]
    snap0 = _snapshot(uim, pn, sens, sn, cms)
    fails, n = [], 0
    built = []
    note = [""]

    def fail(key, what):
        if not any(f["key"] == key for f in fails):
            fails.append({"key": key, "what": f"{d['name']}: {what}{note[0]}"})

    def check(idx, when):
        nonlocal n
        dv, cse, mdl, ekf = built[idx]
        ref = RefEKF(dv)
        P = cov_menu(len(ref.st), "quick")[2][1]
        for env in space.some_points(ref.st + ref.ct, 2, seed + idx, dts=(0.125, -0.25)):
            full = ref.env(env)
            try:
                fx = ref.fx(full)
            except R.Singular:
                continue
            tag = f"compile #{idx} of the same ui.Model (calibration {dict(dv['calmap'])}, cse={cse}), checked {when}"
            try:
                if "model" in aspects:
                    out = pyimpl.vec_by_name(mdl.model(env["dt"], mdl.State(**{s: env[s] for s in ref.st}), mdl.Control(**{s: env[s] for s in ref.ct})))
                    n += 1
                    for i, s in enumerate(ref.st):
                        if not pyimpl.close(out[s], fx[i], REL):
                            fail("shared-inputs:model", f"{tag}: state '{s}' = {out[s]!r}, symbolic value {float(fx[i])!r} at {env}")
                if "jacobians" in aspects:
                    st = ekf.State(**{s: env[s] for s in ref.st})
                    ct = ekf.Control(**{s: env[s] for s in ref.ct})
                    G, Gr = ekf.process_jacobian(env["dt"], st, ct), ref.G(full)
                    n += 1
                    if any(not pyimpl.close(G[i, j], Gr[i][j], REL) for i in range(len(ref.st)) for j in range(len(ref.st))):
                        fail("shared-inputs:process_jacobian", f"{tag}: process_jacobian {G.tolist()} != true partials {R.tofloat(Gr)} at {env}")
                    for key in sorted(ref.h):
                        H, Hr = ekf.sensor_jacobian(key, st), ref.H(key, full)
                        n += 1
                        if any(not pyimpl.close(H[i, j], Hr[i][j], REL) for i in range(len(Hr)) for j in range(len(ref.st))):
                            fail("shared-inputs:sensor_jacobian", f"{tag}: sensor_jacobian[{key}] {H.tolist()} != true partials {R.tofloat(Hr)} at {env}")
                if "predict" in aspects:
                    bad = predict_fails(ekf, ref, env, P)
                    n += 1
                    if bad:
                        fail("shared-inputs:predict", f"{tag}: {bad[0]} at {env}")
                if "update" in aspects:
                    for key in sorted(ref.h):
                        bad = update_fails(ekf, ref, key, env, P, 0.25)
                        n += 1
                        if bad:
                            fail("shared-inputs:update", f"{tag}: {bad[0]} at {env}")
            except Exception as e:
                fail(f"shared-inputs:raises:{type(e).__name__}", f"{tag}: {type(e).__name__}: {str(e)[:200]}")
                return

    for idx, ((dv, cse), cm) in enumerate(zip(variants, cms)):
        cfg = pyimpl.config({"cse": cse, "innovation_filtering": None})
        try:
            mdl = fpy.compile(uim, cm, config=cfg)
            ekf = fpy.compile_ekf(uim, pn, sens, sn, cm, config=cfg)
        except Exception as e:
            fail(f"shared-inputs:compile-raises:{type(e).__name__}", f"compile #{idx} of the same ui.Model raised {type(e).__name__}: {str(e)[:200]}")
            break
        built.append((dv, cse, mdl, ekf))
        if idx == 0:
            # the caller goes on editing ITS dictionaries (e.g. to derive a variant) before the compiled objects are used for the
            # first time: a compiled model / filter is what it was compiled from, and its Jacobians are the partials of ITS functions
            saved = (dict(uim.state_model), dict(pn), {k: dict(v) for k, v in sens.items()}, {k: dict(v) for k, v in sn.items()}, dict(cm))
            for k_ in list(uim.state_model):
                uim.state_model[k_] = uim.state_model[k_] * 2 + 1
            for k_ in list(pn):
                pn[k_] = pn[k_] * 4.0
            for k_ in sens:
                for r_ in list(sens[k_]):
                    sens[k_][r_] = sens[k_][r_] * 3 + 1
                    sn[k_][r_] = sn[k_][r_] * 4.0
            for k_ in list(cm):
                cm[k_] = cm[k_] + 1.0
            check(0, "first use, after the caller edited its own dictionaries")
            uim.state_model.clear(); uim.state_model.update(saved[0])
            pn.clear(); pn.update(saved[1])
            for k_ in sens:
                sens[k_].clear(); sens[k_].update(saved[2][k_])
                sn[k_].clear(); sn[k_].update(saved[3][k_])
            cm.clear(); cm.update(saved[4])
        snap = _snapshot(uim, pn, sens, sn, cms)
        # not a violation on its own (no property forbids it); it is reported WITH a wrong value below, as the explanation
        modified = [k for k in snap0 if snap[k] != snap0[k]]
        if modified and not note[0]:
            note[0] = f" [compile #{idx} (cse={cse}) modified the caller's {', '.join(modified)}]"
        check(idx, "right after compiling")
    for idx in range(len(built)):
        check(idx, "after all were compiled")
    return n, fails
