"""One-call comparisons of the real Python filter with the reference EKF (used by the interleaving cases of C04/C05)."""
from __future__ import annotations

import numpy as np

from fv import pyimpl
from fv import refmodel as R

REL = 1e-9


def predict_fails(ekf, ref, env, P):
    """[] if process_model(env) equals x' = f, P' = G P G^T + V M V^T; else short descriptions"""
    full = ref.env(env)
    try:
        fx, Pn = ref.predict(full, R.M(P))
    except R.Singular:
        return None
    state = ekf.State(**{s: env[s] for s in reversed(ref.st)})
    control = ekf.Control(**{s: env[s] for s in ref.ct})
    cov = ekf.Covariance.from_data(np.array(P, dtype=float))
    out = ekf.process_model(env["dt"], state, cov, control)
    scale = float(max(R.maxabs(Pn), 1))
    bad = []
    got = pyimpl.vec_by_name(out.state)
    for i, s in enumerate(ref.st):
        if not pyimpl.close(got[s], fx[i], REL):
            bad.append(f"state '{s}' = {got[s]!r}, f(x,u) = {float(fx[i])!r}")
            break
    n = len(ref.st)
    for i in range(n):
        for j in range(n):
            if not pyimpl.close(out.covariance.data[i, j], Pn[i][j], REL, scale):
                bad.append(f"P'[{i},{j}] = {out.covariance.data[i, j]!r}, G P G^T + V M V^T gives {float(Pn[i][j])!r}")
                return bad
    return bad


def update_fails(ekf, ref, key, env, P, offset):
    full = ref.env(env)
    try:
        hx = ref.hx(key, full)
    except R.Singular:
        return None
    zf = [float(h) + offset * (1 + 0.5 * i) for i, h in enumerate(hx)]
    z = [R.mp.mpf(v) for v in zf]
    xp, Pp, innov, S, nis = ref.update(key, full, R.M(P), z)
    state = ekf.State(**{s: env[s] for s in ref.st})
    cov = ekf.Covariance.from_data(np.array(P, dtype=float))
    reading = ekf.make_reading(key, **{r: zf[i] for i, r in enumerate(ref.readings(key))})
    out = ekf.sensor_model(state, cov, sensor_key=key, sensor_reading=reading)
    scale = float(max(R.maxabs(R.M(P)), 1))
    bad = []
    got = pyimpl.vec_by_name(out.state)
    for i, s in enumerate(ref.st):
        if not pyimpl.close(got[s], xp[i], REL, scale):
            bad.append(f"sensor {key}: x+['{s}'] = {got[s]!r}, x + K(z-h) = {float(xp[i])!r}")
            break
    n = len(ref.st)
    for i in range(n):
        for j in range(n):
            if not pyimpl.close(out.covariance.data[i, j], Pp[i][j], REL, scale):
                bad.append(f"sensor {key}: P+[{i},{j}] = {out.covariance.data[i, j]!r}, P - K H P = {float(Pp[i][j])!r}")
                return bad
    gi, gS = ekf.innovations.get(key), ekf.sensor_prediction_uncertainty.get(key)
    m = len(z)
    if gi is None or any(not pyimpl.close(gi[i, 0], innov[i], REL) for i in range(m)):
        bad.append(f"sensor {key}: recorded innovation {None if gi is None else gi.ravel().tolist()} != {[float(v) for v in innov]}")
    if gS is None or any(not pyimpl.close(gS[i, j], S[i][j], REL, float(max(R.maxabs(S), 1))) for i in range(m) for j in range(m)):
        bad.append(f"sensor {key}: recorded S differs from H P H^T + Q")
    return bad


def interleave(defs, seed, mode):
    """several different filters alive in ONE process, calls alternated A, B, C, A, B, C, ... at changing points (and finally
    the first point again): no filter may be disturbed by calls made on another one. mode: 'predict' | 'update'"""
    from fv import space
    from fv.ekfref import RefEKF, cov_menu
    objs = []
    for d in defs:
        objs.append((d, pyimpl.py_ekf(d, {"innovation_filtering": None}), RefEKF(d)))
    fails, n = [], 0
    rounds = 4
    for rnd in list(range(rounds)) + [0]:
        for d, ekf, ref in objs:
            pts = list(space.some_points(ref.st + ref.ct, rounds, seed, dts=(0.125, -0.25)))
            env = pts[rnd]
            P = cov_menu(len(ref.st), "quick")[2 if rnd % 2 else 1][1]
            try:
                if mode == "predict":
                    bad = predict_fails(ekf, ref, env, P)
                    n += 1
                else:
                    bad = []
                    for key in sorted(ref.h):
                        b = update_fails(ekf, ref, key, env, P, 0.25 if rnd % 2 else -0.5)
                        n += 1
                        bad += b or []
            except Exception as e:
                bad = [f"raised {type(e).__name__}: {str(e)[:150]}"]
            if bad:
                fails.append({"key": f"interleaved-{mode}", "what": f"{d['name']} (one of {len(objs)} filters alive in one process, round {rnd}): "
                              f"{bad[0]} at {env}"})
                return n, fails
    return n, fails
