"""E2: generic explicit-state breadth-first exploration over the REAL transition functions.

A state is whatever `step` returns (immutable values are carried; mutable objects are rebuilt from the event
history by the caller's step). Every transition is executed on the implementation; `check` is evaluated on every
transition (pre-state, event, post-state). States are de-duplicated by `canon`."""
from __future__ import annotations

from collections import deque


class Stats:
    def __init__(self):
        self.states = 0
        self.transitions = 0
        self.max_depth = 0
        self.pruned = 0
        self.dedup_hits = 0
        self.fails = []
        self.outcomes = set()
        self.sample_traces = []


def bfs(init, events, step, check, canon, max_depth, expandable=lambda s: True, stop_after_fails=3):
    """init: list of (state, label); events: state -> list of events; step(state, ev) -> (state2, info) may raise;
    check(state, ev, state2, info, hist) -> list of (key, what); returns Stats (histories are lists of events)."""
    st = Stats()
    seen = set()
    frontier = deque()
    for s, label in init:
        c = hash(canon(s))
        if c in seen:
            continue
        seen.add(c)
        frontier.append((s, [("init", label)]))
    st.states = len(seen)
    while frontier:
        s, hist = frontier.popleft()
        depth = len(hist) - 1
        if depth >= max_depth:
            continue
        for ev in events(s):
            st.transitions += 1
            h2 = hist + [ev]
            try:
                s2, info = step(s, ev)
            except Exception as e:  # the implementation refused / crashed on this transition
                for key, what in check(s, ev, None, e, h2):
                    st.fails.append({"key": key, "what": what, "history": h2})
                if len(st.fails) >= stop_after_fails:
                    return st
                continue
            bad = check(s, ev, s2, info, h2)
            for key, what in bad:
                st.fails.append({"key": key, "what": what, "history": h2})
            if len(st.fails) >= stop_after_fails:
                return st
            if bad:
                continue
            st.max_depth = max(st.max_depth, depth + 1)
            if len(st.sample_traces) < 2 and depth + 1 == max_depth:
                st.sample_traces.append(h2)
            if not expandable(s2):
                st.pruned += 1
                continue
            c = hash(canon(s2))  # 64-bit hash of the canonical form (collision odds ~1e-7 at 1e6 states)
            if c in seen:
                st.dedup_hits += 1
                continue
            seen.add(c)
            st.states += 1
            if depth + 1 < max_depth:  # states at the depth bound are checked and counted but never expanded
                frontier.append((s2, h2))
    return st
