"""E4: generate C++ with the real formak.cpp entry points, compile it against the Eigen stand-in with g++, drive it.

One generic driver per generated filter reads evaluation points from stdin and prints every generated function's
result by NAME (Options fields in, named accessors out), so the Options constructor order and accessor indices are
under test. Output lines: `<point> <tag> <name...> <value %.17g>`.
"""
from __future__ import annotations

import os
import shutil
import subprocess
import sys
import tempfile

from fv import core, pyimpl

REPO = core.REPO
VERIF = core.VERIF
CXX = os.environ.get("VERIF_CXX", "g++")
BASE_FLAGS = ["-std=c++17", "-O0", "-ffp-contract=off", "-w"]


def include_flags(gen_dir=None):
    f = ["-I", os.path.join(VERIF, "cppstub"), "-I", os.path.join(REPO, "cpp/include"),
         "-I", os.path.join(REPO, "cpp/runtime/include")]
    if gen_dir:
        f += ["-I", gen_dir]
    return f


class Scratch:
    """temporary directory removed on exit (nothing a registered command needs survives in /tmp)"""

    def __enter__(self):
        self.dir = tempfile.mkdtemp(prefix="fv_cpp_")
        os.makedirs(os.path.join(self.dir, "generated"))
        return self

    def __exit__(self, *a):
        shutil.rmtree(self.dir, ignore_errors=True)


def cpp_config(cfg):
    from formak import cpp as fcpp

    cfg = dict(cfg or {})
    kw = {}
    if "cse" in cfg:
        kw["common_subexpression_elimination"] = cfg["cse"]
    if "innovation_filtering" in cfg:
        kw["innovation_filtering"] = cfg["innovation_filtering"]
    if "max_dt_sec" in cfg:
        kw["max_dt_sec"] = cfg["max_dt_sec"]
    return fcpp.Config(**kw)


def generate(d, cfg, sdir, ns, ekf=True):
    """calls the PUBLIC entry point formak.cpp.compile_ekf / compile (they read sys.argv)"""
    from formak import cpp as fcpp

    header = os.path.join(sdir, "generated", f"{ns}.h")
    source = os.path.join(sdir, f"{ns}.cpp")
    old = sys.argv
    sys.argv = ["generator.py", "--header", header, "--source", source, "--namespace", ns]
    try:
        if ekf:
            r = fcpp.compile_ekf(pyimpl.ui_model(d), pyimpl.pnoise(d), pyimpl.sensors(d), pyimpl.snoise(d),
                                 pyimpl.calmap(d), config=cpp_config(cfg))
        else:
            r = fcpp.compile(pyimpl.ui_model(d), pyimpl.calmap(d), config=cpp_config(cfg))
    finally:
        sys.argv = old
    return r, header, source


def gxx(sdir, sources, exe, extra=(), timeout=300):
    cmd = [CXX] + BASE_FLAGS + list(extra) + include_flags(os.path.join(sdir, "generated")) + list(sources) + ["-o", exe]
    p = subprocess.run(cmd, capture_output=True, text=True, timeout=timeout)
    return p.returncode == 0, p.stderr


def first_error(stderr):
    for line in stderr.splitlines():
        if "error" in line:
            return line.strip()[:300]
    return stderr.strip()[:300]


def run(exe, stdin_text="", timeout=120):
    p = subprocess.run([exe], input=stdin_text, capture_output=True, text=True, timeout=timeout)
    return p.returncode, p.stdout, p.stderr


# ----------------------------------------------------------------------------- generic EKF driver


def typename(key):
    return key.title()


def ekf_driver(d, ns, cal_per_point=False):
    st, ca, ct = sorted(d["state"]), sorted(d["calibration"]), sorted(d["control"])
    n = len(st)
    cal = dict((k, v) for k, v in d["calmap"])
    L = []
    A = L.append
    A(f"#include <{ns}.h>")
    A("#include <cstdio>\n#include <cstdlib>")
    A(f"using namespace {ns};")
    A('static double rd() { double v; if (std::scanf("%lf", &v) != 1) { std::fprintf(stderr, "short input\\n"); std::exit(3); } return v; }')
    A("int main() {")
    A("  int npoints = (int)rd();")
    A("  ExtendedKalmanFilter ekf;")
    A("  for (int p = 0; p < npoints; ++p) {")
    A("    double dt = rd();")
    A("    StateOptions so;")
    for s in st:
        A(f"    so.{s} = rd();")
    A("    State s0(so);")
    A("    Covariance cov;")
    A(f"    for (int i = 0; i < {n}; ++i) for (int j = 0; j < {n}; ++j) cov.data(i, j) = rd();")
    A("    StateAndVariance sv{.state = s0, .covariance = cov};")
    cal_arg = ""
    if ca:
        A("    CalibrationOptions co;")
        for c in ca:
            A(f"    co.{c} = rd();" if cal_per_point else f"    co.{c} = {float(cal[c])!r};")
        A("    Calibration cal(co);")
        cal_arg = ", cal"
    ctl_arg = ""
    if ct:
        A("    ControlOptions uo;")
        for c in ct:
            A(f"    uo.{c} = rd();")
        A("    Control ctl(uo);")
        ctl_arg = ", ctl"
    pargs = f"dt, sv{cal_arg}{ctl_arg}"
    A(f"    State m = ExtendedKalmanFilterProcessModel::model({pargs});")
    A("    const State& cm = m;")
    for s in st:
        A(f'    std::printf("%d model {s} %.17g\\n", p, m.{s}());')
        A(f'    std::printf("%d cmodel {s} %.17g\\n", p, cm.{s}());')
    A(f"    auto G = ExtendedKalmanFilterProcessModel::process_jacobian({pargs});")
    A(f'    for (int i = 0; i < {n}; ++i) for (int j = 0; j < {n}; ++j) std::printf("%d G %d %d %.17g\\n", p, i, j, G(i, j));')
    A(f"    auto V = ExtendedKalmanFilterProcessModel::control_jacobian({pargs});")
    A(f'    for (int i = 0; i < {n}; ++i) for (int j = 0; j < {len(ct)}; ++j) std::printf("%d V %d %d %.17g\\n", p, i, j, V(i, j));')
    A(f"    auto M = ExtendedKalmanFilterProcessModel::covariance({pargs});")
    A(f'    for (int i = 0; i < {len(ct)}; ++i) for (int j = 0; j < {len(ct)}; ++j) std::printf("%d M %d %d %.17g\\n", p, i, j, M(i, j));')
    A(f"    StateAndVariance nx = ekf.process_model({pargs});")
    for s in st:
        A(f'    std::printf("%d px {s} %.17g\\n", p, nx.state.{s}());')
    A(f'    for (int i = 0; i < {n}; ++i) for (int j = 0; j < {n}; ++j) std::printf("%d pP %d %d %.17g\\n", p, i, j, nx.covariance.data(i, j));')
    A("    const StateAndVariance& cnx = nx;")
    for s in st:
        A(f'    std::printf("%d pPd {s} %.17g\\n", p, nx.covariance.{s}());')
        A(f'    std::printf("%d cpPd {s} %.17g\\n", p, cnx.covariance.{s}());')
        A(f'    std::printf("%d cpx {s} %.17g\\n", p, cnx.state.{s}());')
    for key, rs in sorted(d["sensors"]):
        T = typename(key)
        rn = sorted(r for r, _ in rs)
        m = len(rn)
        A("    {")
        A(f"      {T}Options ro;")
        for r in rn:
            A(f"      ro.{r} = rd();")
        A(f"      {T} z(ro);")
        sargs = f"sv{cal_arg}, z"
        A(f"      {T} pred = {T}SensorModel::model({sargs});")
        for r in rn:
            A(f'      std::printf("%d h {key} {r} %.17g\\n", p, pred.{r}());')
        A(f"      auto H = {T}SensorModel::jacobian({sargs});")
        A(f'      for (int i = 0; i < {m}; ++i) for (int j = 0; j < {n}; ++j) std::printf("%d H {key} %d %d %.17g\\n", p, i, j, H(i, j));')
        A(f"      auto Q = {T}SensorModel::covariance({sargs});")
        A(f'      for (int i = 0; i < {m}; ++i) for (int j = 0; j < {m}; ++j) std::printf("%d Q {key} %d %d %.17g\\n", p, i, j, Q(i, j));')
        A(f"      StateAndVariance up = ekf.sensor_model({sargs});")
        for s in st:
            A(f'      std::printf("%d ux {key} {s} %.17g\\n", p, up.state.{s}());')
        A(f'      for (int i = 0; i < {n}; ++i) for (int j = 0; j < {n}; ++j) std::printf("%d uP {key} %d %d %.17g\\n", p, i, j, up.covariance.data(i, j));')
        A(f"      auto inn = ekf.innovations<{T}>();")
        A(f'      std::printf("%d innset {key} %d\\n", p, inn.has_value() ? 1 : 0);')
        A(f'      if (inn.has_value()) for (int i = 0; i < {m}; ++i) std::printf("%d inn {key} %d %.17g\\n", p, i, (*inn)(i, 0));')
        A(f'      std::printf("%d size {key} %d\\n", p, (int){T}::size);')
        A("    }")
    A("  }")
    A("  return 0;\n}")
    return "\n".join(L) + "\n"


def ekf_input(d, points, cal_per_point=False):
    """points: list of dict(dt, x{name}, P[[...]] name order, u{name}, z{key: {reading: value}})"""
    st, ct = sorted(d["state"]), sorted(d["control"])
    toks = [str(len(points))]
    for pt in points:
        toks.append(repr(float(pt["dt"])))
        toks += [repr(float(pt["x"][s])) for s in st]
        toks += [repr(float(v)) for r in pt["P"] for v in r]
        if cal_per_point:  # calibration values are read right after the covariance (the order the driver constructs things in)
            cal0 = dict((k, v) for k, v in d["calmap"])
            toks += [repr(float(pt.get("cal", cal0)[c])) for c in sorted(d["calibration"])]
        toks += [repr(float(pt["u"][c])) for c in ct]
        for key, rs in sorted(d["sensors"]):
            for r in sorted(r for r, _ in rs):
                toks.append(repr(float(pt["z"][key][r])))
    return "\n".join(toks) + "\n"


def parse(stdout):
    """-> {point: {(tag, names...): float}}"""
    out = {}
    for line in stdout.splitlines():
        parts = line.split()
        if len(parts) < 3:
            continue
        p = int(parts[0])
        key = tuple(parts[1:-1])
        try:
            val = float(parts[-1])
        except ValueError:
            continue
        out.setdefault(p, {})[key] = val
    return out


def build_and_run_ekf(d, cfg, points, extra_flags=(), cal_per_point=False):
    """returns dict(ok, stage, error, results)"""
    ns = "gen"
    with Scratch() as sc:
        with core.quiet():
            try:
                r, header, source = generate(d, cfg, sc.dir, ns, ekf=True)
            except Exception as e:
                return {"ok": False, "stage": "generate", "error": f"{type(e).__name__}: {str(e)[:300]}"}
        if not (r.success and os.path.exists(header) and os.path.exists(source)):
            return {"ok": False, "stage": "generate", "error": f"compile_ekf returned {r}"}
        drv = os.path.join(sc.dir, "driver.cpp")
        with open(drv, "w") as f:
            f.write(ekf_driver(d, ns, cal_per_point))
        exe = os.path.join(sc.dir, "drv")
        ok, err = gxx(sc.dir, [source, drv], exe, extra_flags)
        if not ok:
            return {"ok": False, "stage": "compile", "error": first_error(err), "header": open(header).read()[-1500:]}
        rc, out, err = run(exe, ekf_input(d, points, cal_per_point))
        if rc != 0:
            return {"ok": False, "stage": "run", "error": f"exit {rc}: {err[:300]}"}
        return {"ok": True, "results": parse(out), "source_text": open(source).read(), "header_text": open(header).read()}


def model_driver(d, ns):
    st, ca, ct = sorted(d["state"]), sorted(d["calibration"]), sorted(d["control"])
    cal = dict((k, v) for k, v in d["calmap"])
    L = [f"#include <{ns}.h>", "#include <cstdio>\n#include <cstdlib>", f"using namespace {ns};",
         'static double rd() { double v; if (std::scanf("%lf", &v) != 1) std::exit(3); return v; }',
         "int main() {", "  int npoints = (int)rd();", "  for (int p = 0; p < npoints; ++p) {", "    double dt = rd();",
         "    StateOptions so;"]
    for s in st:
        L.append(f"    so.{s} = rd();")
    L.append("    State s0(so);")
    args = "dt, s0"
    if ca:
        L.append("    CalibrationOptions co;")
        for c in ca:
            L.append(f"    co.{c} = {float(cal[c])!r};")
        L.append("    Calibration cal(co);")
        args += ", cal"
    if ct:
        L.append("    ControlOptions uo;")
        for c in ct:
            L.append(f"    uo.{c} = rd();")
        L.append("    Control ctl(uo);")
        args += ", ctl"
    L.append("    Model mdl;")
    L.append(f"    State m = mdl.model({args});")
    for s in st:
        L.append(f'    std::printf("%d model {s} %.17g\\n", p, m.{s}());')
    L += ["  }", "  return 0;", "}"]
    return "\n".join(L) + "\n"


def build_and_run_model(d, cfg, points, extra_flags=()):
    ns = "genm"
    st, ct = sorted(d["state"]), sorted(d["control"])
    with Scratch() as sc:
        with core.quiet():
            try:
                r, header, source = generate(d, cfg, sc.dir, ns, ekf=False)
            except Exception as e:
                return {"ok": False, "stage": "generate", "error": f"{type(e).__name__}: {str(e)[:300]}"}
        if not (r.success and os.path.exists(header)):
            return {"ok": False, "stage": "generate", "error": f"compile returned {r}"}
        drv = os.path.join(sc.dir, "driver.cpp")
        with open(drv, "w") as f:
            f.write(model_driver(d, ns))
        exe = os.path.join(sc.dir, "drv")
        ok, err = gxx(sc.dir, [source, drv], exe, extra_flags)
        if not ok:
            return {"ok": False, "stage": "compile", "error": first_error(err)}
        toks = [str(len(points))]
        for pt in points:
            toks.append(repr(float(pt["dt"])))
            toks += [repr(float(pt["x"][s])) for s in st]
            toks += [repr(float(pt["u"][c])) for c in ct]
        rc, out, err = run(exe, "\n".join(toks) + "\n")
        if rc != 0:
            return {"ok": False, "stage": "run", "error": f"exit {rc}: {err[:300]}"}
        return {"ok": True, "results": parse(out), "source_text": open(source).read()}
