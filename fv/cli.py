import argparse
import importlib
import json
import os
import sys


def main():
    ap = argparse.ArgumentParser(prog="check")
    ap.add_argument("id")
    ap.add_argument("--tier", default=os.environ.get("VERIF_TIER", "quick"), choices=["quick", "thorough"])
    ap.add_argument("--replay")
    a = ap.parse_args()
    seed = int(os.environ.get("VERIF_SEED", "0") or 0)
    # formak.cpp.compile reads sys.argv; keep our own arguments out of its sight
    sys.argv = [sys.argv[0]]
    from fv import core

    if a.id == "selftest":
        from fv import selftest

        sys.exit(selftest.main())
    mod = importlib.import_module(f"fv.props.{a.id.lower()}")
    if a.replay:
        if not os.path.isabs(a.replay):
            a.replay = os.path.join(os.environ.get("VERIF_ORIG_PWD", "."), a.replay)
        with open(a.replay) as f:
            rec = json.load(f)
        rc = core.run_check(mod, a.tier, seed, only_case=rec["case"])
        sys.exit(rc)
    sys.exit(core.run_check(mod, a.tier, seed))


if __name__ == "__main__":
    main()
