"""E3: structural fault injectors over a raw (sympy-level) definition."""
from __future__ import annotations

import sympy

from fv import pyimpl

Sy = sympy.Symbol


def raw_of(d):
    dt = Sy("dt")
    return {
        "dt": dt,
        "state": set(Sy(s) for s in d["state"]),
        "control": set(Sy(s) for s in d["control"]),
        "calibration": set(Sy(s) for s in d["calibration"]),
        "state_model": {Sy(k): pyimpl.to_sympy(a, dt) for k, a in d["model"]},
        "calibration_map": {Sy(k): v for k, v in d["calmap"]},
        "process_noise": {Sy(k): v for k, v in d["pnoise"]},
        "sensor_models": {k: {r: pyimpl.to_sympy(a, dt) for r, a in rs} for k, rs in d["sensors"]},
        "sensor_noises": {k: {r: v for r, v in rs} for k, rs in d["snoise"]},
    }


def fault_list(d):
    """[(kind, label, scope, fn)] - scope 'model' = visible to model-only and EKF entry points, 'ekf' = EKF entry points
    only. Every single structural fault of every listed kind at every applicable position."""
    st, ct, ca = sorted(d["state"]), sorted(d["control"]), sorted(d["calibration"])
    F = []
    UND = Sy("undeclared_q")

    # 1. overlap: each symbol additionally placed in each other set
    sets = {"state": st, "control": ct, "calibration": ca}
    for src, names in sets.items():
        for s in names:
            for dst in sets:
                if dst != src:
                    F.append(("overlap", f"{s} also in {dst}", "model", lambda r, s=s, dst=dst: r[dst].add(Sy(s))))
    # 2. coverage of the state by update expressions
    for s in st:
        F.append(("coverage", f"update of {s} dropped", "model", lambda r, s=s: r["state_model"].pop(Sy(s))))
        for foreign in (ct[:1] + ca[:1] + ["undeclared_q"]):
            F.append(("coverage", f"update of {s} re-keyed to {foreign}", "model",
                      lambda r, s=s, f=foreign: r["state_model"].__setitem__(Sy(f), r["state_model"].pop(Sy(s)))))
    F.append(("coverage", "extra update for undeclared symbol", "model", lambda r: r["state_model"].__setitem__(UND, UND)))
    if ct:
        F.append(("coverage", f"extra update for control {ct[0]}", "model",
                  lambda r: r["state_model"].__setitem__(Sy(ct[0]), Sy(ct[0]))))
    # 3. calibration map
    for c in ca:
        F.append(("calibration-map", f"value of {c} dropped", "model", lambda r, c=c: r["calibration_map"].pop(Sy(c))))
        F.append(("calibration-map", f"key {c} renamed", "model",
                  lambda r, c=c: r["calibration_map"].__setitem__(Sy(c + "_x"), r["calibration_map"].pop(Sy(c)))))
        F.append(("calibration-map", f"key {c} replaced by state {st[0]}", "model",
                  lambda r, c=c: r["calibration_map"].__setitem__(Sy(st[0]), r["calibration_map"].pop(Sy(c)))))
    F.append(("calibration-map", "extra value for undeclared symbol" if ca else "map given without calibration", "model",
              lambda r: r["calibration_map"].__setitem__(UND, 1.0)))
    F.append(("calibration-map", f"extra value for state {st[0]}", "model", lambda r: r["calibration_map"].__setitem__(Sy(st[0]), 1.0)))
    # 4. process noise
    for c in ct:
        F.append(("process-noise", f"noise of {c} dropped", "ekf", lambda r, c=c: r["process_noise"].pop(Sy(c))))
        F.append(("process-noise", f"noise of {c} negative", "ekf", lambda r, c=c: r["process_noise"].__setitem__(Sy(c), -0.25)))
        for foreign in (st[:1] + ca[:1] + ["undeclared_q"]):
            F.append(("process-noise", f"noise of {c} given for {foreign} instead", "ekf",
                      lambda r, c=c, f=foreign: r["process_noise"].__setitem__(Sy(f), r["process_noise"].pop(Sy(c)))))
    for foreign in (st[:1] + ca[:1] + ["undeclared_q"]):
        F.append(("process-noise", f"extra noise for {foreign}" if ct else f"noise for {foreign} with no controls", "ekf",
                  lambda r, f=foreign: r["process_noise"].__setitem__(Sy(f), 0.5)))
    # 4b. a control's noise entry replaced by an entry keyed by a PAIR of controls (the count of entries stays right)
    if len(ct) >= 2:
        for c in ct:
            other = [x for x in ct if x != c][0]
            for val in (0.0, 0.5):
                F.append(("process-noise", f"noise of {c} replaced by an entry for the pair ({c}, {other}) = {val}", "ekf",
                          lambda r, c=c, other=other, val=val: (r["process_noise"].pop(Sy(c)), r["process_noise"].__setitem__((Sy(c), Sy(other)), val))))
    # 5. sensor models
    for key, rs in d["sensors"]:
        for rn, _ in rs:
            for foreign in (ct + ["undeclared_q"]):
                F.append(("sensor-model", f"{key}.{rn} depends on {foreign}", "ekf",
                          lambda r, key=key, rn=rn, f=foreign: r["sensor_models"][key].__setitem__(rn, r["sensor_models"][key][rn] + Sy(f))))
            # two foreign symbols in ONE reading (a control and an undeclared symbol; two undeclared symbols; two controls)
            combos = [((ct[0] if ct else "undeclared_r"), "undeclared_q"), ("undeclared_q", "undeclared_r")]
            if len(ct) >= 2:
                combos.append((ct[0], ct[1]))
            for f1, f2 in combos:
                F.append(("sensor-model", f"{key}.{rn} depends on {f1} and {f2}", "ekf",
                          lambda r, key=key, rn=rn, f1=f1, f2=f2: r["sensor_models"][key].__setitem__(
                              rn, r["sensor_models"][key][rn] + Sy(f1) * Sy(f2))))
    # 6. sensor noise
    for key, rs in d["sensors"]:
        F.append(("sensor-noise", f"noise of sensor {key} dropped", "ekf", lambda r, key=key: r["sensor_noises"].pop(key)))
        for rn, _ in rs:
            F.append(("sensor-noise", f"noise of {key}.{rn} dropped", "ekf", lambda r, key=key, rn=rn: r["sensor_noises"][key].pop(rn)))
            F.append(("sensor-noise", f"noise of {key}.{rn} renamed", "ekf",
                      lambda r, key=key, rn=rn: r["sensor_noises"][key].__setitem__(rn + "_x", r["sensor_noises"][key].pop(rn))))
        F.append(("sensor-noise", f"extra reading noise in {key}", "ekf", lambda r, key=key: r["sensor_noises"][key].__setitem__("ghost", 0.5)))
    F.append(("sensor-noise", "noise for a sensor that does not exist", "ekf", lambda r: r["sensor_noises"].__setitem__("ghost", {"g": 0.5})))
    # 7. near-miss spellings of keys (a fragment, another case, two names glued together): a by-name check done on a joined
    # string, by prefix, case-insensitively or by count accepts these
    def near(name, others):
        cands = [name[:-1], name[1:], name[0], name.upper(), name.lower(), name + name, ", ".join([name] + others[:1]), name + " "]
        out = []
        for c_ in cands:
            if c_ and c_ != name and c_ not in others and c_ not in out:
                out.append(c_)
        return out

    for key, rs in d["sensors"]:
        rns = [rn for rn, _ in rs]
        for rn in rns:
            for alt in near(rn, [x for x in rns if x != rn]):
                F.append(("sensor-noise", f"noise of {key}.{rn} given under the near-miss name {alt!r}", "ekf",
                          lambda r, key=key, rn=rn, alt=alt: r["sensor_noises"][key].__setitem__(alt, r["sensor_noises"][key].pop(rn))))
        keys = [k_ for k_, _ in d["sensors"]]
        for alt in near(key, [x for x in keys if x != key]):
            F.append(("sensor-noise", f"noise of sensor {key} given under the near-miss key {alt!r}", "ekf",
                      lambda r, key=key, alt=alt: r["sensor_noises"].__setitem__(alt, r["sensor_noises"].pop(key))))
    for c in ct:
        for alt in near(c, [x for x in ct + st + ca if x != c]):
            if alt.isidentifier():
                F.append(("process-noise", f"noise of {c} given under the near-miss name {alt!r}", "ekf",
                          lambda r, c=c, alt=alt: r["process_noise"].__setitem__(Sy(alt), r["process_noise"].pop(Sy(c)))))
    for c in ca:
        for alt in near(c, [x for x in ct + st + ca if x != c]):
            if alt.isidentifier():
                F.append(("calibration-map", f"value of {c} given under the near-miss name {alt!r}", "model",
                          lambda r, c=c, alt=alt: r["calibration_map"].__setitem__(Sy(alt), r["calibration_map"].pop(Sy(c)))))
    return F
