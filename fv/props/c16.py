"""C16 - scikit-learn adapter's transform / mahalanobis / score are the filter's NIS."""
from __future__ import annotations

import copy
import itertools
from math import sqrt

import numpy as np

from fv import pyimpl, space
from fv import refmodel as R
from fv.claims import CLAIMS
from fv.ekfref import RefEKF

ID = "C16"
CASE_TIMEOUT_S = 2400  # per-case alarm (seconds); a case that does not finish is reported as a violation
LEVEL = "exploration"
TECHNIQUE = CLAIMS[ID]["technique"]
RULE = (
    "models with k in {0,1,2} controls (with and without calibration) x sensor sets {1x1, 2x1 (two sensors of one "
    "reading), 1x2 (one sensor of two readings), (2,1), 3x1} with keys and readings declared out of order x threshold in "
    "{disabled, 5.0, 0.5} x EVERY data matrix with 1, 2 or 3 rows drawn from a 3-row alphabet (3 + 9 + 27 = 39 matrices; "
    "plus the 1-D input form where the width is 1). Oracle 1: the exported filter run by hand (predict with dt = 0.1, then "
    "update the sensors in sorted key order, NIS from the recorded innovation and S). Oracle 2: the reference EKF incl. the "
    "innovation gate. Checked per matrix: transform shape (n, #sensors), values >= 0 and equal to both oracles; mahalanobis "
    "= the same numbers row-major; score and its explained components = the documented combination; get_params unchanged; "
    "repeated calls identical; plus parameter sequences (transform/score, set_params of a threshold / noise map / Config field, "
    "transform/score, ...) after each of which the estimator must equal a freshly created one with the current parameters. One evaluation = one adapter call. distinct = (model, threshold, matrix); non-trivial = "
    "matrices with >= 2 rows or models with >= 2 sensors."
    " One further model has a sensor whose predicted readings are negatively correlated (x - y, y)."
)
ASSUMPTIONS = ["finite data matrices of matching width with dyadic entries", "reference comparison tolerance 1e-9, hand-run comparison 1e-12"]
SHAPES = [(1,), (1, 1), (2,), (2, 1), (1, 1, 1)]


def defs():
    out = []
    i = 0
    for k in (0, 1, 2):
        for sens in SHAPES:
            c = (i % 2)
            n = 2 if len(sens) < 3 else 3
            out.append(space.bind_def(n, k, c, order=i, sensors_shape=sens, tag=f"-s{'x'.join(map(str, sens))}"))
            i += 1
    out.append(anticorrelated_def())
    return out


def anticorrelated_def():
    """a sensor whose predicted readings are NEGATIVELY correlated (r1 = x - y, r2 = y): S has negative off-diagonal entries"""
    S, DT, add, sub, mul, C = space.S, space.DT, space.add, space.sub, space.mul, space.C
    x, y, u = S("x"), S("y"), S("u")
    model = [["y", add(mul(C(7, 8), y), mul(DT, u))], ["x", add(x, mul(DT, y))]]
    # the two-reading sensor comes first in key order, so it is applied right after the prediction
    sensors = [["gps", [["r1", add(mul(C(1, 2), x), mul(C(2), y))]]], ["alt", [["r2", y], ["r1", sub(x, y)]]]]
    snoise = [["gps", [["r1", 0.5]]], ["alt", [["r1", 0.25], ["r2", 1.0]]]]
    return space.mkdef("anticorr-s2x1", ["y", "x"], ["u"], [], model, [], [["u", 0.25]], sensors, snoise)


def cases(tier, seed):
    ds = defs()
    for i, d in enumerate(ds):
        for k in (None, 5.0, 0.5):
            if tier == "quick" and (i + [None, 5.0, 0.5].index(k)) % 3:
                continue
            yield {"def": d, "k": k, "seed": seed, "tier": tier}
    # the adapter's step is fixed (0.1) whatever the filter's max_dt_sec / CSE setting
    for i, (mdt, cse) in enumerate([(0.05, True), (0.25, False), (1.0, True)]):
        yield {"def": ds[(4 * i + 1) % len(ds)], "k": 5.0, "seed": seed, "tier": tier, "max_dt_sec": mdt, "cse": cse}
    # parameters changed between calls: the estimator must behave like a freshly created one with the current parameters
    for i in (3, 7, 11):
        yield {"kind": "param-sequence", "def": ds[i], "seed": seed, "tier": tier}
    # the 1-D input form: no control, one sensor with one reading
    yield {"def": space.bind_def(2, 0, 1, order=1, sensors_shape=(1,), tag="-1d"), "k": 5.0, "seed": seed, "one_d": True, "tier": tier}


def alphabet(width, seed):
    t = space.GRID_TABLES[seed % 4]
    return [[t[(r * 5 + c * 3) % len(t)] / 2 for c in range(width)] for r in range(3)]


def hand_run(ekf, ref, X, k):
    """exported filter by hand + reference EKF in lock-step; returns (nis rows by hand, nis rows by reference)"""
    st, ct = ref.st, ref.ct
    keys = sorted(ekf.sensor_models)
    state, cov = ekf.State(), ekf.Covariance()
    rx = [R.mp.mpf(0)] * len(st)
    rP = R.eye(len(st))
    rows_h, rows_r = [], []
    for row in X:
        ctrl = ekf.Control.from_data(np.array(row[: len(ct)], dtype=float).reshape((len(ct), 1)))
        state, cov = ekf.process_model(0.1, state, cov, ctrl)
        env = ref.env(dict(zip(st, rx), dt=0.1, **dict(zip(ct, row[: len(ct)]))))
        rx, rP = ref.predict(env, rP)
        rest = list(row[len(ct):])
        rh, rr = [], []
        for key in keys:
            m = len(ekf.sensor_models[key].readings)
            z, rest = rest[:m], rest[m:]
            reading = ekf.make_reading(key, data=np.array(z, dtype=float).reshape((m, 1)))
            state, cov = ekf.sensor_model(state, cov, sensor_key=key, sensor_reading=reading)
            inn = ekf.innovations[key]
            S = ekf.sensor_prediction_uncertainty[key]
            rh.append(float((inn.T @ np.linalg.inv(S) @ inn).item()))
            env = ref.env(dict(zip(st, rx)))
            xp, Pp, innov, Sr, nis = ref.update(key, env, rP, [R.mp.mpf(v) for v in z])
            rr.append(nis)
            if not (k is not None and nis > k * sqrt(2 * m) + m):
                rx, rP = xp, Pp
        rows_h.append(rh)
        rows_r.append(rr)
    return rows_h, rows_r


def params_snapshot(est):
    p = est.get_params()
    return {"symbolic_model": id(p["symbolic_model"]), "process_noise": copy.deepcopy(p["process_noise"]),
            "sensor_models": copy.deepcopy(p["sensor_models"]), "sensor_noises": copy.deepcopy(p["sensor_noises"]),
            "calibration_map": copy.deepcopy(p["calibration_map"]), "config": p["config"]}


def eval_param_sequence(case):
    """differential oracle: the state reached by a sequence of calls and set_params equals a fresh estimator"""
    from formak import python as fpy
    d = case["def"]
    ref = RefEKF(d)
    width = len(ref.ct) + sum(len(rs) for _, rs in d["sensors"])
    alpha = alphabet(width, case["seed"])
    outlier = [v * 4.0 for v in alpha[1]]
    X = np.array([alpha[0], outlier, alpha[2], alpha[1]], dtype=float)
    fails = []
    n = 0

    def fresh(params):
        return fpy.SklearnEKFAdapter(**params)

    def snapshot(est):
        p = est.get_params()
        return {"symbolic_model": p["symbolic_model"], "process_noise": dict(p["process_noise"]),
                "sensor_models": p["sensor_models"], "sensor_noises": {k_: dict(v) for k_, v in p["sensor_noises"].items()},
                "calibration_map": p["calibration_map"], "config": p["config"]}

    est = fpy.SklearnEKFAdapter.Create(pyimpl.ui_model(d), pyimpl.pnoise(d), pyimpl.sensors(d), pyimpl.snoise(d), pyimpl.calmap(d),
                                       config=pyimpl.config({"innovation_filtering": 5.0}))
    pn2 = {k_: v * 4.0 for k_, v in pyimpl.pnoise(d).items()}
    sn2 = {k_: {r: v / 4.0 for r, v in rs.items()} for k_, rs in pyimpl.snoise(d).items()}
    steps = [("call", None), ("set", {"innovation_filtering": 0.5}), ("call", None), ("set", {"innovation_filtering": None}), ("call", None),
             ("set", {"sensor_noises": sn2}), ("call", None), ("set", {"innovation_filtering": 5.0, "max_dt_sec": 0.05}), ("call", None),
             ("set", {"process_noise": pn2}), ("call", None), ("set", {"common_subexpression_elimination": False}), ("call", None)]
    trail = []
    for kind, arg in steps:
        if kind == "set":
            est.set_params(**arg)
            trail.append(f"set_params({', '.join(arg)})")
            continue
        trail.append("transform/score")

        def run(e):
            try:
                return ("ok", e.transform(X.copy()), e.score(X.copy()))
            except Exception as ex:  # numerical refusals (ill-conditioned regime) must at least be the same on both sides
                return (type(ex).__name__, None, None)

        try:
            twin = fresh(snapshot(est))
        except Exception as e:
            fails.append({"key": f"param-sequence-raises:{type(e).__name__}", "what": f"{d['name']}: after {trail}: {type(e).__name__}: {str(e)[:200]}"})
            break
        (o1, T, sc), (o2, T2, sc2) = run(est), run(twin)
        if o1 != o2:
            fails.append({"key": "stale-state-after-set_params", "what": f"{d['name']}: after {trail} the estimator ends with {o1}, a freshly "
                          f"created estimator with the same parameters with {o2}"})
            break
        if o1 != "ok":
            continue
        n += 2
        if T.shape != T2.shape or not np.allclose(T, T2, rtol=1e-12, atol=0) or not pyimpl.close(sc, sc2, 1e-12, abs(sc2)):
            fails.append({"key": "stale-state-after-set_params", "what": f"{d['name']}: after {trail} transform gives {T.tolist()} (score {sc!r}); a "
                          f"freshly created estimator with the same parameters gives {T2.tolist()} (score {sc2!r})"})
            break
    return {"n": n, "fails": fails, "sigs": [f"{d['name']}:seq:{i}" for i in range(n)], "outcomes": ["param-sequence", "evaluated"],
            "sample": {"kind": "param-sequence", "model": d["name"], "steps": [f"{k_}:{list(a) if a else ''}" for k_, a in steps]}}


def eval_case(case):
    if case.get("kind") == "param-sequence":
        return eval_param_sequence(case)
    from formak import python as fpy
    d, k = case["def"], case["k"]
    ref = RefEKF(d)
    tag = f"{d['name']} k={k}"
    fails = []

    def fail(key, what):
        if not any(f["key"].startswith(key) for f in fails):
            fails.append({"key": f"{key}@{'x'.join(str(len(rs)) for _, rs in sorted(d['sensors']))}", "what": f"{tag}: {what}"})

    cfgd = {"innovation_filtering": k}
    if "max_dt_sec" in case:
        cfgd.update({"max_dt_sec": case["max_dt_sec"], "cse": case["cse"]})
    cfg = pyimpl.config(cfgd)
    est = fpy.SklearnEKFAdapter.Create(pyimpl.ui_model(d), pyimpl.pnoise(d), pyimpl.sensors(d), pyimpl.snoise(d), pyimpl.calmap(d),
                                       config=cfg)
    width = len(ref.ct) + sum(len(rs) for _, rs in d["sensors"])
    nsens = len(d["sensors"])
    alpha = alphabet(width, case["seed"])
    mats = []
    quick = case.get("tier", "quick") == "quick"
    for n in (1, 2, 3):
        for ci, combo in enumerate(itertools.product(range(3), repeat=n)):
            if quick and n == 3 and ci % 5:
                continue  # quick: all 1- and 2-row matrices, every fifth 3-row matrix; thorough: all 39
            mats.append([alpha[i] for i in combo])
    ekf_export = None
    noise_sq = sum(v * v for _, v in d["pnoise"]) + sum(v * v for _, rs in d["snoise"] for _, v in rs)
    n = 0
    sigs = []
    for mi, Xl in enumerate(mats):
        X = np.array(Xl, dtype=float)
        Xin = X[:, 0].copy() if case.get("one_d") else X
        snap = params_snapshot(est)
        try:
            full = (not quick) or mi % 4 == 0
            T = est.transform(Xin.copy())
            T2 = est.transform(Xin.copy()) if full else T
            Mh = est.mahalanobis(Xin.copy()) if full else T.flatten()
            sc, (bw, bs, vw, vs, mw, ms) = est.score(Xin.copy(), explain_score=True)
            sc_plain = est.score(Xin.copy()) if full else sc
            if ekf_export is None or full:
                ekf_export = est.export_python()
            ekf = ekf_export
        except Exception as e:
            fail(f"raises:{type(e).__name__}", f"matrix {Xl}: {type(e).__name__}: {str(e)[:200]}")
            continue
        n += 5 if full else 2
        sigs.append(f"{tag}:{mi}")
        if params_snapshot(est) != snap:
            fail("params-changed", f"get_params() differs after transform/mahalanobis/score on {Xl}")
        if not isinstance(T, np.ndarray) or T.shape != (len(Xl), nsens):
            fail("transform-shape", f"transform shape {getattr(T, 'shape', None)} for {len(Xl)} rows x {nsens} sensors")
            continue
        if full and not case.get("one_d"):
            try:
                TL = est.transform([list(map(float, r)) for r in Xl])  # nested-list input is accepted like an array
                if not np.array_equal(np.asarray(TL), T):
                    fail("list-input-differs", f"transform(list of lists) differs from transform(ndarray) on {Xl}")
            except Exception as e:
                fail(f"list-input-raises:{type(e).__name__}", f"transform(list of lists) raised {e!r}"[:200])
        if not np.array_equal(T, T2):
            fail("not-repeatable", f"two transform calls differ on {Xl}")
        if np.any(T < 0):
            fail("negative-nis", f"negative value in transform {T.tolist()}")
        if ekf.config != cfg:
            fail("export-config", f"exported filter config {ekf.config} != adapter config {cfg}")
        try:
            rows_h, rows_r = hand_run(ekf, ref, Xl, k)
        except R.Singular:
            continue
        except Exception as e:
            fail(f"hand-run-raises:{type(e).__name__}", f"exported filter by hand raised {type(e).__name__}: {str(e)[:150]} on {Xl}")
            continue
        for i in range(len(Xl)):
            for j in range(nsens):
                if not pyimpl.close(T[i, j], rows_h[i][j], 1e-12, abs(rows_h[i][j])):
                    fail("transform-vs-hand-run", f"transform[{i},{j}] = {T[i, j]!r}, exported filter by hand gives {rows_h[i][j]!r} on {Xl}")
                if not pyimpl.close(T[i, j], rows_r[i][j], 1e-9, abs(float(rows_r[i][j]))):
                    fail("transform-vs-reference", f"transform[{i},{j}] = {T[i, j]!r}, reference EKF NIS {float(rows_r[i][j])!r} on {Xl}")
        flat = [v for r in T.tolist() for v in r]
        if list(np.asarray(Mh).ravel()) != flat:
            fail("mahalanobis", f"mahalanobis {np.asarray(Mh).ravel().tolist()} != transform row-major {flat}")
        dvals = np.array(flat)
        exp_bias = float(np.mean(np.sqrt(dvals)) ** 2)
        exp_var = float((1.0 / dvals.sum() + dvals.sum()) / 2.0)
        exp = 10.0 * exp_bias + 1.0 * exp_var + 0.01 * noise_sq
        if not (pyimpl.close(bs, exp_bias, 1e-12, exp_bias) and pyimpl.close(vs, exp_var, 1e-12, exp_var)
                and pyimpl.close(ms, noise_sq, 1e-12, noise_sq) and (bw, vw, mw) == (10.0, 1.0, 0.01)):
            fail("score-components", f"explained components {(bw, bs, vw, vs, mw, ms)} expected (10, {exp_bias}, 1, {exp_var}, 0.01, {noise_sq})")
        if not pyimpl.close(sc, exp, 1e-12, exp) or not pyimpl.close(sc_plain, exp, 1e-12, exp):
            fail("score", f"score {sc!r}/{sc_plain!r}, documented combination gives {exp!r} on {Xl}")
    return {"n": n, "fails": fails, "sigs": sigs, "nontrivial": True,
            "outcomes": ["evaluated", f"controls{len(ref.ct)}", f"sensors{nsens}"] + (["one-d-input"] if case.get("one_d") else []),
            "sample": {"model": d["name"], "k": k, "matrices": len(mats), "example": mats[len(mats) // 2]}}


REQUIRED_OUTCOMES = ["evaluated", "param-sequence", "controls0", "controls1", "controls2", "sensors1", "sensors2", "sensors3", "one-d-input"]
