"""C11 - tick = fold readings in order, hold at last reading, report at output time (Python and C++ runtimes)."""
from __future__ import annotations

import itertools
from types import SimpleNamespace

from fv import explore
from fv.claims import CLAIMS

ID = "C11"
LEVEL = "model_checking"
TECHNIQUE = CLAIMS[ID]["technique"]
RULE = (
    "explicit-state BFS over tick histories of the real ManagedFilter with a SYMBOLIC stand-in filter: process_model "
    "returns the term P(dt, state, cov, control), sensor_model returns S(key, reading, state, cov), so the value returned "
    "by tick is a complete record of which calls were composed in which order on which inputs. State = (held time, held "
    "term); canonical form = held time (the runtime never inspects the estimate). From every reachable state: every "
    "tick with output in held + {-1.5h, 0, 0.5h, 2.5h} and every reading list of length <= 2 (quick) / <= 3 (thorough) "
    "over times held + {-1.5h, 0, 0.5h, 2.5h, 4h} x sensors {a, b, n} where n is a sensor whose readings the filter rejects "
    "(returns its input estimate unchanged) (all orders, duplicates, before the held time, after "
    "the output time), BFS to depth 3 ticks from 2 start times and 2 controls settings. Each transition compared with "
    "the reference fold, and the calls issued during the tick are split at the sensor calls into moves whose summed dt "
    "must equal reading time - held time (then output time - last reading time); reading-less ticks checked differentially; control-less tick of a control model must be "
    "refused; the C++ runtime is driven through the same histories and must issue the same call sequence. "
    "distinct = distinct (held time, tick) transitions; non-trivial = tick with >= 1 reading."
    " Error path: every first tick in which one reading (alone, before or after an ordinary / rejected one) makes sensor_model raise, "
    "the caller catching the error, followed by every second tick of a 16-tick menu: the held estimate must have been predicted over "
    "exactly held time - start time, state and covariance must belong together, and the second tick must be the reference fold from that hold."
    " The C++ runtime is explored for all four control x calibration instantiations in both tiers."
)
ASSUMPTIONS = [
    "consecutive prediction steps are collapsed to their summed dt (the split is C10's business); times compared to 1e-9",
    "canonical state = held time: the runtime forwards the estimate opaquely, so futures depend on the held time only; "
    "the held term itself is still compared with the reference on every transition",
]
H = 0.1
TOL = 1e-9
OUT_OFFS = [-1.5, 0.0, 0.5, 2.5]
READ_OFFS = [-1.5, 0.0, 0.5, 2.5, 4.0]
SENSORS = ["a", "b", "n"]  # "n": a sensor whose reading the filter rejects (returns its inputs unchanged)


def _sc(state, covariance):
    """the real filter returns formak.python.StateAndCovariance (a namedtuple): keep the stand-in's interface identical"""
    from formak.python import StateAndCovariance
    return StateAndCovariance(state, covariance)


class Symbolic:
    def __init__(self, h, control_size):
        self.config = SimpleNamespace(max_dt_sec=h)
        self.control_size = control_size
        self.calls = []

    def process_model(self, dt, state, covariance, control=None):
        self.calls.append(("P", dt))
        t = ("P", dt, state, covariance, control)
        return _sc(t, t)

    def sensor_model(self, state, covariance, *, sensor_key, sensor_reading):
        self.calls.append(("S", sensor_key))
        if sensor_key == "x":  # a reading the filter cannot apply (unknown sensor, bad shape, ...): the error reaches the caller
            raise KeyError("x")
        if sensor_key == "n":  # rejected by innovation filtering: estimate returned unchanged (same objects)
            return _sc(state, covariance)
        t = ("S", sensor_key, sensor_reading, state, covariance)
        return _sc(t, t)

    def make_reading(self, key, *, data=None, **kwargs):
        return ("R", key, tuple(sorted(kwargs.items())))


class Mismatch(Exception):
    pass


def nf(term):
    """normal form: collapse runs of P; ('init', id) | ('P*', total_dt, inner, control) | ('S', key, reading, inner)"""
    if term[0] == "init":
        return term
    if term[0] == "S":
        _, key, z, s, c = term
        if s != c:
            raise Mismatch(f"sensor_model received state and covariance from different estimates")
        return ("S", key, z, nf(s))
    _, dt, s, c, u = term
    if s != c:
        raise Mismatch("process_model received state and covariance from different estimates")
    inner = nf(s)
    if inner[0] == "P*" and inner[3] == u:
        return ("P*", inner[1] + dt, inner[2], u)
    return ("P*", dt, inner, u)


def drop_small(n):
    """merge directly nested P* nodes (a rejected reading leaves no node between two moves) and drop |dt| <= 1e-9"""
    if n[0] == "init":
        return n
    if n[0] == "S":
        return ("S", n[1], n[2], drop_small(n[3]))
    inner = drop_small(n[2])
    total = n[1]
    if inner[0] == "P*" and inner[3] == n[3]:
        total += inner[1]
        inner = inner[2]
    if abs(total) <= TOL:
        return inner
    return ("P*", total, inner, n[3])


def same(a, b):
    if a[0] != b[0]:
        return False
    if a[0] == "init":
        return a == b
    if a[0] == "S":
        return a[1] == b[1] and a[2] == b[2] and same(a[3], b[3])
    return abs(a[1] - b[1]) <= 2 * TOL and a[3] == b[3] and same(a[2], b[2])


def ref_tick(held_t, held_nf, out, readings, u, data_of):
    t, v = held_t, held_nf
    for (rt, key, z) in readings:
        v = ("P*", rt - t, v, u)
        if key not in ("n", 2):
            v = ("S", key, data_of(key, z), v)
        t = rt
    return (t, v), ("P*", out - t, v, u)


def show(n):
    if n[0] == "init":
        return "x0"
    if n[0] == "S":
        return f"S[{n[1]}:{n[2]}]({show(n[3])})"
    return f"P[{n[1]:+.4g}]({show(n[2])})"


def tick_menu(tier):
    rl = [(o, s) for o in READ_OFFS for s in SENSORS]
    maxlen = 2 if tier == "quick" else 3
    lists = [()]
    for L in range(1, maxlen + 1):
        lists += list(itertools.product(rl, repeat=L))
    return [(oo, lst) for oo in OUT_OFFS for lst in lists]


def run_history(history, t0, ctrl, form="data"):
    """replay a list of ticks on a fresh real ManagedFilter; returns (mf, impl, results)"""
    from formak import runtime

    impl = Symbolic(H, 1 if ctrl is not None else 0)
    init = ("init", 0)
    mf = runtime.ManagedFilter(impl, t0, init, init)
    results = []
    for (out, readings) in history:
        rs = []
        for i, (rt, key, z) in enumerate(readings):
            if form == "data":
                rs.append(runtime.StampedReading(rt, key, _data=("Z", z)))
            else:
                rs.append(runtime.StampedReading(rt, key, val=z))
        kw = {}
        if ctrl is not None:
            kw["control"] = ctrl
        if readings or form == "data":
            kw["readings"] = rs
        before = len(impl.calls)
        r = mf.tick(out, **kw)
        results.append(r)
        impl.per_tick = getattr(impl, "per_tick", []) + [impl.calls[before:]]
    return mf, impl, results


def cases(tier, seed):
    for t0 in (0.0, 10.0):
        for ctrl in (None, "u1"):
            yield {"runtime": "py", "t0": t0, "ctrl": ctrl, "tier": tier, "depth": 3}
    # a large time base with a dyadic step: all times are exactly representable (2^30 + k/16), so the fold is exact there too
    yield {"runtime": "py", "t0": 2.0 ** 30, "ctrl": "u1", "tier": "quick", "depth": 2, "h": 0.125}
    yield {"runtime": "py-refuse"}
    for t0 in (0.0, 10.0):
        for ctrl in (None, "u1"):
            yield {"runtime": "py-raise", "t0": t0, "ctrl": ctrl}
    from fv.props import c11_cpp
    yield from c11_cpp.cases(tier, seed)


def concrete(held_t, ev, counter):
    oo, lst = ev
    readings = [(held_t + ro * H, s, f"z{counter}_{i}") for i, (ro, s) in enumerate(lst)]
    return held_t + oo * H, readings


def eval_case(case):
    global H
    H = case.get("h", 0.1)
    if case["runtime"] == "cpp":
        from fv.props import c11_cpp
        return c11_cpp.eval_case(case)
    if case["runtime"] == "py-refuse":
        from formak import runtime
        fails = []
        n = 0
        combos = []
        for out in (0.2, 0.0, -0.1, 5e-10):  # later, equal to the held time, earlier, within the time resolution
            combos.append((out, None))
            combos.append((out, []))
            for rt in (0.1, 0.0, -0.1):
                combos.append((out, [(rt, "a")]))
            combos.append((out, [(0.0, "a"), (0.0, "b")]))
            combos.append((out, [(0.0, "n"), (0.1, "a")]))
        for out, spec in combos:
            rs = None if spec is None else [runtime.StampedReading(rt, key, _data="z") for rt, key in spec]
            impl = Symbolic(H, 1)
            mf = runtime.ManagedFilter(impl, 0.0, ("init", 0), ("init", 0))
            n += 1
            try:
                mf.tick(out, readings=rs) if rs is not None else mf.tick(out)
                fails.append({"key": "control-model-ticked-without-control:py", "what": f"tick(output={out}) without control accepted for a "
                              f"model with controls (readings={spec}, held time 0.0); calls {impl.calls}"})
            except TypeError:
                if impl.calls or mf.current_time != 0.0 or mf.state != ("init", 0):
                    fails.append({"key": "refusal-after-calls:py", "what": f"tick(output={out}, readings={spec}) refused only after issuing "
                                  f"{impl.calls} (held time now {mf.current_time})"})
        return {"n": n, "fails": fails, "outcomes": ["refusal-checked"], "sigs": ["py-refuse"]}

    if case["runtime"] == "py-raise":
        return eval_raise(case)
    t0, ctrl = case["t0"], case["ctrl"]
    data_of = lambda key, z: ("Z", z)

    if "history" in case:
        hist = [(o, [tuple(r) for r in rs]) for o, rs in case["history"]]
        fails = check_history(hist, t0, ctrl)
        return {"n": len(hist), "fails": [{"key": k, "what": w} for k, w in fails]}

    menu = tick_menu(case["tier"])
    outcomes = set()

    # state = (held_t, history) ; the live object is rebuilt from the history (ManagedFilter is mutable)
    def step(s, ev):
        held_t, hist = s
        out, readings = concrete(held_t, ev, len(hist))
        h2 = hist + [(out, readings)]
        mf, impl, results = run_history(h2, t0, ctrl)
        return (mf.current_time, h2), (mf, impl, results)

    def check(s, ev, s2, info, hh):
        held_t, hist = s
        if s2 is None:
            return [(f"tick-raises:{type(info).__name__}:py", f"tick {concrete(held_t, ev, len(hist))} raised {info!r} after {hist}")]
        bad = check_history(s2[1], t0, ctrl, live=info)
        out, readings = s2[1][-1]
        outcomes.add(f"readings{len(readings)}")
        if readings:
            ts = [r[0] for r in readings]
            if any(t < held_t for t in ts):
                outcomes.add("reading-before-held")
            if any(t > out for t in ts):
                outcomes.add("reading-after-output")
            if ts != sorted(ts):
                outcomes.add("unordered-readings")
            if len(set(ts)) < len(ts):
                outcomes.add("duplicate-times")
        if out < s2[0]:
            outcomes.add("output-before-held")
        return bad

    stt = explore.bfs([((t0, []), "t0")], lambda s: menu, step, check, lambda s: round(s[0] / (H / 2)), case["depth"])
    # the same first-level ticks with readings given by KEYWORD values: the runtime must build each reading through the
    # filter's make_reading(sensor_key, **values) and hand exactly that object to sensor_model
    nkw = 0
    kwfails = []
    for ev in menu:
        if not ev[1]:
            continue
        hist1 = [concrete(t0, ev, 0)]
        try:
            mf, impl, results = run_history(hist1, t0, ctrl, form="kwargs")
        except Exception as e:
            kwfails.append({"key": f"kwargs-reading-raises:{type(e).__name__}:py", "what": f"tick {hist1} with keyword readings raised {e!r}"[:300]})
            break
        nkw += 1
        held_kw, exp_kw = ref_tick(t0, ("init", 0), hist1[0][0], hist1[0][1], ctrl, lambda k, z: ("R", k, (("val", z),)))
        try:
            got = drop_small(nf(results[0][0]))
            ok = same(got, drop_small(exp_kw))
        except Mismatch:
            ok = False
        if not ok:
            kwfails.append({"key": "kwargs-reading:py", "what": f"tick {hist1} with keyword readings returned {show(got) if 'got' in dir() else '?'}; "
                            f"fold over make_reading(key, val=...) gives {show(drop_small(exp_kw))}"})
            break
    fails = [{"key": f["key"], "what": f["what"],
              "replay_case": dict(case, history=[[o, [list(r) for r in rs]] for o, rs in _hist_of(f, t0)])}
             for f in stt.fails]

    fails += kwfails
    # differential: a reading-less tick never changes what later ticks return
    ndiff = 0
    if not fails:
        for oo1 in OUT_OFFS:
            for ev in [m for m in menu if len(m[1]) <= 1]:
                base = [concrete(t0, ev, 0)]
                with_empty = [(t0 + oo1 * H, [])] + base
                _, _, r1 = run_history(base, t0, ctrl)
                _, _, r2 = run_history(with_empty, t0, ctrl)
                ndiff += 1
                try:
                    a, b = drop_small(nf(r1[-1][0])), drop_small(nf(r2[-1][0]))
                    ok = same(a, b)
                except Mismatch:
                    ok = False
                if not ok:
                    fails.append({"key": "readingless-tick-changes-later-result:py",
                                  "what": f"tick({t0 + oo1 * H}) without readings changed the result of the following tick {base}",
                                  "replay_case": dict(case, history=[[o, [list(r) for r in rs]] for o, rs in with_empty])})
                    break
    return {"n": stt.transitions + ndiff, "fails": fails[:3],
            "sigs": [f"py:{t0}:{ctrl}:{i}" for i in range(stt.transitions)],
            "counters": {"states": stt.states, "transitions": stt.transitions, "differential_pairs": ndiff, "keyword_reading_ticks": nkw},
            "outcomes": sorted(outcomes) + ["py-explored"],
            "sample": {"runtime": "py", "t0": t0, "control": ctrl, "ticks_per_state": len(menu),
                       "trace": [[o, rs] for o, rs in (stt.sample_traces[0][1:] if stt.sample_traces else [])][:3]}}


def total_dt(term):
    """time covered by all prediction steps recorded in a (symbolic) estimate"""
    if term[0] == "init":
        return 0.0
    if term[0] == "S":
        return total_dt(term[3])
    return term[1] + total_dt(term[2])


def eval_raise(case):
    """a tick in which one reading cannot be applied (the filter's sensor_model raises; the caller catches and carries on):
    whatever progress the runtime keeps, the held estimate must be the estimate AT the held time (the prediction steps recorded
    in it cover exactly held time - start time, state and covariance from the same estimate), and the following tick is the
    reference fold from that hold"""
    from formak import runtime
    t0, ctrl = case["t0"], case["ctrl"]
    fails, n, sigs = [], 0, []

    def fail(key, what, hist):
        if not any(f["key"] == key for f in fails):
            fails.append({"key": key, "what": what + f"; history {hist} from t0={t0}, control={ctrl}"})

    firsts = []
    for oo in OUT_OFFS:
        for ro in READ_OFFS:
            firsts.append((oo, [(ro, "x")]))
            for ro2 in (0.5, 2.5, -1.5):
                for k2 in ("a", "n"):
                    firsts.append((oo, [(ro2, k2), (ro, "x")]))
                    firsts.append((oo, [(ro, "x"), (ro2, k2)]))
    seconds = [(oo, lst) for oo in OUT_OFFS for lst in ([], [(0.5, "a")], [(-1.5, "b")], [(2.5, "n")])]
    for f_ev in firsts:
        for s_ev in seconds:
            impl = Symbolic(H, 1 if ctrl is not None else 0)
            mf = runtime.ManagedFilter(impl, t0, ("init", 0), ("init", 0))
            out1 = t0 + f_ev[0] * H
            r1 = [runtime.StampedReading(t0 + ro * H, k, _data=("Z", f"z0_{i}")) for i, (ro, k) in enumerate(f_ev[1])]
            kw = {"control": ctrl} if ctrl is not None else {}
            hist = [(out1, [(t0 + ro * H, k) for ro, k in f_ev[1]])]
            raised = False
            try:
                mf.tick(out1, readings=r1, **kw)
            except KeyError:
                raised = True
            except Exception as e:
                fail(f"raising-reading:other-exception:{type(e).__name__}:py", f"tick raised {e!r}", hist)
                continue
            n += 1
            sigs.append(f"pyraise:{t0}:{ctrl}:{f_ev}:{s_ev}")
            try:
                held = drop_small(nf(mf.state))
                heldc = drop_small(nf(mf.covariance))
            except Mismatch as e:
                fail("raising-reading:mixed-estimates:py", f"after the failed tick: {e}", hist)
                continue
            if not same(held, heldc):
                fail("raising-reading:state-covariance-differ:py", f"after the failed tick the held state is {show(held)} but the held covariance "
                     f"is {show(heldc)}", hist)
                continue
            covered = total_dt(nf(mf.state))
            if abs(covered - (mf.current_time - t0)) > 2 * TOL:
                fail("raising-reading:held-time-vs-estimate:py", f"after a tick in which a reading raised{'' if raised else ' (error swallowed)'}, the held "
                     f"time is {mf.current_time!r} but the held estimate {show(held)} has been predicted over {covered!r} s from {t0}", hist)
                continue
            # the following tick, from whatever hold the runtime kept
            held_t = mf.current_time
            out2 = held_t + s_ev[0] * H
            rd2 = [(held_t + ro * H, k, f"z1_{i}") for i, (ro, k) in enumerate(s_ev[1])]
            hist2 = hist + [(out2, [(t, k) for t, k, _ in rd2])]
            try:
                res = mf.tick(out2, readings=[runtime.StampedReading(t, k, _data=("Z", z)) for t, k, z in rd2], **kw)
            except Exception as e:
                fail(f"tick-after-failed-tick-raises:{type(e).__name__}:py", f"the tick after the failed one raised {e!r}", hist2)
                continue
            n += 1
            (exp_t, exp_held), exp_out = ref_tick(held_t, held, out2, rd2, ctrl, lambda k, z: ("Z", z))
            try:
                got_out = drop_small(nf(res[0]))
                got_held = drop_small(nf(mf.state))
            except Mismatch as e:
                fail("tick-after-failed-tick:mixed-estimates:py", str(e), hist2)
                continue
            if not same(got_out, drop_small(exp_out)):
                fail("tick-after-failed-tick:result:py", f"returned {show(got_out)}, the fold from the hold ({held_t!r}, {show(held)}) gives "
                     f"{show(drop_small(exp_out))}", hist2)
            elif abs(mf.current_time - exp_t) > 2 * TOL or not same(got_held, drop_small(exp_held)):
                fail("tick-after-failed-tick:hold:py", f"holds ({mf.current_time!r}, {show(got_held)}), expected ({exp_t!r}, {show(drop_small(exp_held))})", hist2)
    return {"n": n, "fails": fails[:3], "sigs": sigs, "outcomes": ["py-raising-reading"],
            "counters": {"failed_ticks": len(firsts) * len(seconds)},
            "sample": {"runtime": "py-raise", "t0": t0, "control": ctrl, "first_ticks": len(firsts), "second_ticks": len(seconds)}}


def _hist_of(f, t0):
    """rebuild the concrete tick list from a BFS event history"""
    held = t0
    hist = []
    for ev in f["history"][1:]:
        out, readings = concrete(held, ev, len(hist))
        hist.append((out, readings))
        if readings:
            held = readings[-1][0]
    return hist


def check_history(hist, t0, ctrl, live=None):
    """run (or reuse) the real runtime on `hist` and compare every tick with the reference fold"""
    if live is None:
        mf, impl, results = run_history(hist, t0, ctrl)
    else:
        mf, impl, results = live
    held = (t0, ("init", 0))
    bad = []
    for i, ((out, readings), res) in enumerate(zip(hist, results)):
        held_before = held[0]
        held, exp = ref_tick(held[0], held[1], out, readings, ctrl, lambda k, z: ("Z", z))
        if i < len(hist) - 1 and live is not None:
            continue  # earlier ticks were checked when their own transition was explored
        for k_, w_ in check_moves(impl.per_tick[i], held_before, out, readings, "py"):
            bad.append((k_, f"{w_}; history {hist}"))
        try:
            state_t, cov_t = res[0], res[1]
            if state_t != cov_t:
                raise Mismatch("tick returned state and covariance of different estimates")
            got = drop_small(nf(state_t))
        except Mismatch as e:
            bad.append(("estimate-threading:py", f"{e} in tick {i} of {hist}"))
            continue
        if not same(got, drop_small(exp)):
            bad.append(("tick-result:py", f"tick {i} (output {out}, readings {readings}) returned {show(got)}; fold gives "
                        f"{show(drop_small(exp))}; history {hist}"))
    # held estimate after the whole history
    try:
        if mf.state != mf.covariance:
            raise Mismatch("held state and covariance come from different estimates")
        gheld = drop_small(nf(mf.state))
        if abs(mf.current_time - held[0]) > TOL:
            bad.append(("held-time:py", f"held time {mf.current_time!r}, fold gives {held[0]!r} after {hist}"))
        elif not same(gheld, drop_small(held[1])):
            bad.append(("held-estimate:py", f"held estimate {show(gheld)}; fold gives {show(drop_small(held[1]))} after {hist}"))
    except Mismatch as e:
        bad.append(("estimate-threading:py", f"{e} after {hist}"))
    return bad


def check_moves(calls, held_t, out, readings, lab):
    """each reading in the order given: one move of the held estimate to the reading's timestamp, then its sensor update;
    finally one move to the output time. calls = [('P', dt) | ('S', key)] issued during this tick."""
    segs, keys, cur = [], [], 0.0
    for c in calls:
        if c[0] == "P":
            cur += c[1]
        else:
            segs.append(cur)
            keys.append(c[1])
            cur = 0.0
    segs.append(cur)
    want_keys = [k for _, k, _ in readings]
    if keys != want_keys:
        return [(f"sensor-call-order:{lab}", f"sensor updates issued for {keys}, readings given as {want_keys}")]
    targets = [rt for rt, _, _ in readings] + [out]
    t = held_t
    bad = []
    for i, (seg, target) in enumerate(zip(segs, targets)):
        if abs(seg - (target - t)) > 2 * TOL:
            what = f"reading {i} at {target}" if i < len(readings) else f"the output time {out}"
            bad.append((f"move-length:{lab}", f"the move to {what} covered {seg!r} s, the estimate was held at {t!r} (expected {target - t!r})"))
            break
        t = target
    return bad


def finalize(agg, tier):
    c = agg["counters"]
    return {"states": c.get("states", 0), "transitions": c.get("transitions", 0),
            "traces_validated_against_impl": c.get("transitions", 0),
            "explanation": "every transition is a real tick() on the real runtime; the reference fold is the 6-line model it is compared with"}


REQUIRED_OUTCOMES = ["py-explored", "refusal-checked", "py-raising-reading", "readings0", "readings1", "readings2", "reading-before-held",
                     "reading-after-output", "unordered-readings", "duplicate-times", "output-before-held",
                     "cpp-explored", "cpp-combo0", "cpp-combo3", "cpp-refusal-checked"]
