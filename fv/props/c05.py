"""C05 - sensor update is the Kalman correction, for any number of readings."""
from __future__ import annotations

from math import sqrt

import numpy as np

from fv import pyimpl, space
from fv import refmodel as R
from fv.claims import CLAIMS
from fv.ekfref import RefEKF, cov_menu

ID = "C05"
LEVEL = "exploration"
TECHNIQUE = CLAIMS[ID]["technique"]
RULE = (
    "programs = BIND with rectangular sensor sets (1..3 sensors x 1..3 readings, keys and reading names declared out "
    "of order, distinct per-reading noise inserted in reverse order, with/without calibration) + OPS with a nonlinear "
    "two-reading sensor; x covariance menu x readings z = h(x) + delta for delta in {0, each +-unit direction, the "
    "all-ones diagonal} (scaled 0.5) x grid states x innovation_filtering in {None, 5.0}; one evaluation = one "
    "sensor_model call compared with the exact reference (x+, P+, recorded innovation and S) plus the corollaries "
    "(z = h(x) leaves x unchanged; P+ symmetric; P - P+ PSD). Readings the reference NIS puts outside the gate are "
    "counted and left to C06. The unit and all-ones directions are also scaled so that the normalised innovation is 35 %, 65 % "
    "and 90 % of the documented limit 5*sqrt(2m)+m (moderate innovations well inside the gate, incl. sensors with more readings "
    "than the model has states). distinct = (program, covariance); non-trivial = sensor has >=2 readings or model >=2 states."
    "One ui.Model object (and one set of noise / sensor dictionaries) is also compiled four times with different calibration maps and CSE settings; every compiled object is checked against ITS calibration right after compiling and again after all were compiled."
    " One prior State / Covariance object per filter and point is handed to every update (all sensors, all readings); the reference uses the values put into it."
)
ASSUMPTIONS = [
    "covariances SPD with condition <= 1e4, per-reading noise positive (property's domain)",
    "tolerance 1e-9 relative to the largest entry of P / S",
]
REL = 1e-9


def with_sensors(d):
    from fv.props.c03 import with_sensors as ws
    return ws(d)


def cases(tier, seed):
    defs = space.family_bind(tier, with_sensors=True)
    defs += [with_sensors(d) for d in space.family_ops("quick") if len(d["state"]) == 2][:: (1 if tier == "thorough" else 4)]
    # symbols declared with sympy assumptions (different objects from plain Symbol(name)), all or only some of them
    defs += [space.assumed(defs[13]), space.assumed(defs[25], ["x", "k"])]
    # filters whose sensors have the same shapes (m == n twice, m != n) alive together, updates alternated between them
    inter = [space.bind_def(2, 0, 1, order=0, sensors_shape=(2, 1)), space.bind_def(2, 1, 0, order=1, sensors_shape=(2,), tag="-twin"),
             space.bind_def(3, 1, 1, order=2, sensors_shape=(3, 2)), space.bind_def(3, 0, 0, order=3, sensors_shape=(1, 3))]
    inter[1]["snoise"] = [[k_, [[r_, v_ * 4.0 + 0.125] for r_, v_ in rs_]] for k_, rs_ in inter[1]["snoise"]]
    # one ui.Model / sensor dict compiled several times with different calibration maps and CSE settings: each compiled filter
    # corrects with ITS calibration
    for d_ in (space.bind_def(2, 1, 2, order=1, sensors_shape=(2, 1)), space.bind_def(3, 0, 1, order=2, sensors_shape=(1, 3))):
        yield {"kind": "shared", "def": d_, "seed": seed}
    yield {"kind": "interleave", "defs": inter, "seed": seed}
    yield {"kind": "interleave", "defs": list(reversed(inter)), "seed": seed}
    for d in defs:
        n = len(d["state"])
        for pname, P in cov_menu(n, tier):
            if pname == "rank1":
                continue
            yield {"def": d, "P": P, "Pname": pname, "seed": seed, "points": 3 if tier == "quick" else 8}
    # "all positive per-reading noise assignments": a precise sensor (variances 2^-23 .. 2^-27) on a correspondingly small prior
    for d in defs[:27:3]:
        n = len(d["state"])
        tiny = dict(d, name=d["name"] + "-tinynoise",
                    snoise=[[k_, [[r_, 2.0 ** -(23 + 2 * i_)] for i_, (r_, v_) in enumerate(rs_)]] for k_, rs_ in d["snoise"]])
        dense = cov_menu(n, "quick")[2][1]
        yield {"def": tiny, "P": [[v_ * 2.0 ** -20 for v_ in r_] for r_ in dense], "Pname": "dense*2^-20", "seed": seed, "points": 2,
               "abs_scale": 2.0 ** -20}


def eval_case(case):
    if case.get("kind") == "shared":
        from fv import ekfcheck
        n, fails = ekfcheck.shared_inputs(case["def"], case["seed"], aspects=("update",))
        return {"n": n, "fails": fails, "sig": "shared:" + case["def"]["name"], "outcomes": ["evaluated", "shared-inputs"],
                "sample": {"kind": "shared-inputs", "definition": case["def"]["name"], "compiles_of_one_ui_model": 4, "calls": n}}
    if case.get("kind") == "interleave":
        from fv import ekfcheck
        n, fails = ekfcheck.interleave(case["defs"], case["seed"], "update")
        return {"n": n, "fails": fails, "sig": "interleave", "outcomes": ["evaluated", "interleaved"],
                "sample": {"kind": "interleave", "filters": [d_["name"] for d_ in case["defs"]], "calls": n}}
    d = case["def"]
    ref = RefEKF(d)
    fails = []

    def fail(key, what):
        fails.append({"key": f"{key}@{d['name'].split('-')[0]}", "what": f"{d['name']} P={case['Pname']}: {what}"})

    ekfs = {}
    for k in (None, 5.0):
        try:
            ekfs[k] = pyimpl.py_ekf(d, {"innovation_filtering": k})
        except Exception as e:
            fail(f"compile-refused:{type(e).__name__}", f"refused by python.compile_ekf: {type(e).__name__}: {str(e)[:300]}")
            return {"n": 1, "fails": fails}
    n = skipped = gated = 0
    Pm = R.M(case["P"])
    ns = len(ref.st)
    for env in space.some_points(ref.st, case["points"], case["seed"]):
        full = ref.env(env)
        # ONE prior State / Covariance object per filter and point, handed to every update below (all sensors, all readings): the
        # reference is computed from the values put into it here
        priors = {kf_: (ekf_.State(**{s: env[s] for s in ref.st}), ekf_.Covariance.from_data(np.array(case["P"], dtype=float)))
                  for kf_, ekf_ in ekfs.items()}
        for key in sorted(ref.h):
            m = len(ref.readings(key))
            try:
                hx = ref.hx(key, full)
            except R.Singular:
                skipped += 1
                continue
            deltas = [[0.0] * m]
            for i in range(m):
                for sgn in (0.5, -0.5):
                    deltas.append([sgn if j == i else 0.0 for j in range(m)])
            if m > 1:
                deltas.append([0.5] * m)
            # moderate innovations: the same directions scaled so that the normalised innovation is 35%, 65%, 90% of the documented
            # limit k*sqrt(2m)+m - well inside "accepted", far from tiny (a limit computed from anything but m shows here)
            T5 = 5.0 * sqrt(2 * m) + m
            for base in ([deltas[1]] + ([deltas[-1]] if m > 1 else [])):
                zb = [R.mp.mpf(float(h + R.mp.mpf(dl))) for h, dl in zip(hx, base)]
                nis_b = float(ref.update(key, full, Pm, zb)[4])
                if nis_b > 0:
                    for theta in (0.35, 0.65, 0.9):
                        al = sqrt(theta * T5 / nis_b)
                        deltas.append([dl * al for dl in base])
            for delta in deltas:
                z = [h + R.mp.mpf(dl) for h, dl in zip(hx, delta)]
                zf = [float(v) for v in z]
                z = [R.mp.mpf(v) for v in zf]  # the reading the implementation actually receives
                xp, Pp, innov, S, nis = ref.update(key, full, Pm, z)
                scaleP = float(max(R.maxabs(Pm), 1))
                scaleS = float(max(R.maxabs(S), 1))
                if case.get("abs_scale"):  # tiny prior/noise: compare relative to THEIR magnitude, not to 1
                    scaleP = float(R.maxabs(Pm))
                    scaleS = float(R.maxabs(S))
                for kf, ekf in ekfs.items():
                    if kf is not None and float(nis) > kf * sqrt(2 * m) + m - 1e-6:
                        gated += 1
                        continue
                    state, cov = priors[kf]
                    reading = ekf.make_reading(key, **{r: zf[i] for i, r in enumerate(ref.readings(key))})
                    ekf.innovations.pop(key, None)
                    ekf.sensor_prediction_uncertainty.pop(key, None)
                    try:
                        out = ekf.sensor_model(state, cov, sensor_key=key, sensor_reading=reading)
                    except Exception as e:
                        fail(f"sensor_model-raises:{type(e).__name__}", f"sensor {key} (m={m}) k={kf}: {type(e).__name__}: "
                             f"{str(e)[:160]} at {env} z={zf}")
                        continue
                    n += 1
                    gx = pyimpl.vec_by_name(out.state)
                    for i, s in enumerate(ref.st):
                        if not pyimpl.close(gx[s], xp[i], REL, scaleP):
                            fail("state-mismatch", f"sensor {key} k={kf}: x+['{s}'] = {gx[s]!r}, x + K(z-h) = {float(xp[i])!r} "
                                 f"at {env} z={zf}")
                            break
                    gP = out.covariance.data
                    bad = [(i, j) for i in range(ns) for j in range(ns) if not pyimpl.close(gP[i, j], Pp[i][j], REL, scaleP)]
                    if bad:
                        i, j = bad[0]
                        fail("covariance-mismatch", f"sensor {key} k={kf}: P+[{i},{j}] = {gP[i, j]!r}, P - K H P = "
                             f"{float(Pp[i][j])!r} at {env}")
                    gi = ekf.innovations.get(key)
                    if gi is None or gi.shape != (m, 1) or any(not pyimpl.close(gi[i, 0], innov[i], REL) for i in range(m)):
                        fail("innovation-record", f"sensor {key}: recorded innovation {None if gi is None else gi.tolist()} "
                             f"!= z - h(x) = {[float(v) for v in innov]}")
                    gS = ekf.sensor_prediction_uncertainty.get(key)
                    if gS is None or gS.shape != (m, m) or any(
                            not pyimpl.close(gS[i, j], S[i][j], REL, scaleS) for i in range(m) for j in range(m)):
                        fail("S-record", f"sensor {key}: recorded S {None if gS is None else gS.tolist()} != H P H^T + Q = "
                             f"{R.tofloat(S)}")
                    if all(v == 0 for v in delta):
                        if any(not pyimpl.close(gx[s], env[s], REL, scaleP) for s in ref.st):
                            fail("prediction-equal-reading-moves-state", f"sensor {key}: z = h(x) but state changed at {env}")
                    if not np.allclose(gP, gP.T, rtol=0, atol=REL * scaleP):
                        fail("posterior-asymmetric", f"sensor {key}: P+ not symmetric at {env}")
                    else:
                        w = np.linalg.eigvalsh((np.array(case["P"]) - (gP + gP.T) / 2))
                        if w.min() < -REL * scaleP:
                            fail("posterior-exceeds-prior", f"sensor {key}: P - P+ has eigenvalue {w.min()} at {env}")
        if len(fails) > 6:
            break
    seen, uniq = set(), []
    for f in fails:
        if f["key"] not in seen:
            seen.add(f["key"])
            uniq.append(f)
    maxm = max(len(rs) for _, rs in d["sensors"])
    return {"n": n, "fails": uniq, "nontrivial": maxm >= 2 or ns >= 2,
            "counters": {"points_skipped_singular": skipped, "readings_outside_gate_left_to_C06": gated},
            "outcomes": ["evaluated"] if n else ["none"],
            "sample": {"program": d["name"], "P": case["Pname"], "sensor_shapes": {k: len(rs) for k, rs in d["sensors"]},
                       "snoise": d["snoise"], "updates": n}}


REQUIRED_OUTCOMES = ["evaluated", "interleaved"]
