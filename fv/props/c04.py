"""C04 - prediction step is x' = f(x,u), P' = G P G^T + V M V^T; inputs untouched; repeatable."""
from __future__ import annotations

import numpy as np

from fv import pyimpl, space
from fv import refmodel as R
from fv.claims import CLAIMS
from fv.ekfref import RefEKF, cov_menu

ID = "C04"
LEVEL = "exploration"
TECHNIQUE = CLAIMS[ID]["technique"]
RULE = (
    "programs = BIND (27 shapes, k in {0,1,2} controls, distinct per-control noise inserted in reverse order) + a "
    "nonlinear OPS subset + the singular-Jacobian SING models; x covariance menu (I, distinct diagonal, dense SPD; "
    "thorough: x1024 and /1024 scalings) x dt in {0.125, 0.0625, -0.125} x full dyadic state/control grid x CSE on/off; "
    "one evaluation = one process_model call compared with the exact reference (state by name, every covariance "
    "entry), plus input-snapshot and repeat-call comparison. distinct = distinct (program, covariance) pairs; "
    "non-trivial = model has >=1 control or >=2 states."
    "One ui.Model object (and one set of noise / sensor dictionaries) is also compiled four times with different calibration maps and CSE settings; every compiled object is checked against ITS calibration right after compiling and again after all were compiled."
    " A third filter object per program sees the grid in another order, degenerate points (all-zero input, dt = 0, single zeros) first."
    " Definitions with a declared but unused control / calibration value sorting before the used ones."
)
ASSUMPTIONS = [
    "covariances symmetric positive definite with condition number <= 1e4 (property's stated domain)",
    "tolerance 1e-9 relative to the largest covariance entry",
]
REL = 1e-9


def cases(tier, seed):
    defs = space.family_bind(tier) + [d for d in space.family_ops(tier) if d["name"].split("-")[1] in
                                      ("mul", "div", "sin", "exp", "mix1", "mix2", "mix3", "pow2", "pow-1")]
    defs += space.family_sing()
    # symbols declared with sympy assumptions (different objects from plain Symbol(name)), all or only some of them
    defs += [space.assumed(defs[13]), space.assumed(defs[25], ["x", "w"]), space.assumed(defs[17], ["y", "k"], "finite")]
    # a declared control / calibration value that no expression uses (sorting before the used ones)
    defs += [space.with_unused(defs[13]), space.with_unused(defs[17]), space.with_unused(defs[7])]
    # filters of equal and different shapes alive together, calls alternated between them
    inter = [space.bind_def(2, 1, 1, order=0), space.bind_def(2, 1, 1, order=3, tag="-twin"), space.bind_def(3, 2, 0, order=1),
             space.bind_def(2, 2, 2, order=2), space.bind_def(3, 2, 1, order=4)]
    # same symbols, different noise assignment: "all positive per-control noise assignments"
    for d_ in (inter[1], inter[3]):
        d_["pnoise"] = [[k_, v_ * 4.0 + 0.125 * i_] for i_, (k_, v_) in enumerate(reversed(d_["pnoise"]))]
    # one ui.Model / noise dict compiled several times with different calibration maps and CSE settings: each compiled filter
    # predicts with ITS calibration
    for d_ in (space.bind_def(2, 1, 2, order=1, sensors_shape=(2, 1)), space.bind_def(3, 2, 1, order=2, sensors_shape=(1, 2))):
        yield {"kind": "shared", "def": d_, "seed": seed}
    yield {"kind": "interleave", "defs": inter, "seed": seed}
    yield {"kind": "interleave", "defs": list(reversed(inter)), "seed": seed}
    for d_ in defs[:27:4]:  # and a second noise assignment for a sample of the BIND shapes in the ordinary cases
        if d_["pnoise"]:
            d2 = dict(d_, name=d_["name"] + "-noise2", pnoise=[[k_, v_ * 4.0 + 0.125 * i_] for i_, (k_, v_) in enumerate(d_["pnoise"])])
            defs.append(d2)
    for d_ in defs[1:27:5]:  # precise actuators / a diffuse prior: magnitudes far from 1
        if d_["pnoise"]:
            tiny = dict(d_, name=d_["name"] + "-tinynoise", pnoise=[[k_, 2.0 ** -(24 + i_)] for i_, (k_, v_) in enumerate(d_["pnoise"])])
            n_ = len(d_["state"])
            dense = cov_menu(n_, "quick")[2][1]
            yield {"def": tiny, "P": [[v_ * 2.0 ** -22 for v_ in r_] for r_ in dense], "Pname": "dense*2^-22", "seed": seed, "per_symbol": 2,
                   "dts": [0.125, -0.25], "abs_scale": True}
            yield {"def": d_, "P": [[v_ * 2.0 ** 30 for v_ in r_] for r_ in dense], "Pname": "dense*2^30", "seed": seed, "per_symbol": 2,
                   "dts": [0.125, -0.25]}
    for d in defs:
        n = len(d["state"])
        for pname, P in cov_menu(n, tier):
            if pname == "rank1":
                continue
            yield {"def": d, "P": P, "Pname": pname, "seed": seed,
                   "per_symbol": 2 if tier == "quick" or n + len(d["control"]) > 4 else 3,
                   "dts": [0.125, 0.0625, -0.125]}


def eval_case(case):
    if case.get("kind") == "shared":
        from fv import ekfcheck
        n, fails = ekfcheck.shared_inputs(case["def"], case["seed"], aspects=("predict",))
        return {"n": n, "fails": fails, "sig": "shared:" + case["def"]["name"], "outcomes": ["evaluated", "shared-inputs"],
                "sample": {"kind": "shared-inputs", "definition": case["def"]["name"], "compiles_of_one_ui_model": 4, "calls": n}}
    if case.get("kind") == "interleave":
        from fv import ekfcheck
        n, fails = ekfcheck.interleave(case["defs"], case["seed"], "predict")
        return {"n": n, "fails": fails, "sig": "interleave", "outcomes": ["evaluated", "interleaved"],
                "sample": {"kind": "interleave", "filters": [d_["name"] for d_ in case["defs"]], "calls": n}}
    d = case["def"]
    ref = RefEKF(d)
    fails = []

    def fail(key, what):
        fails.append({"key": f"{key}@{d['name'].split('-')[0]}", "what": f"{d['name']} P={case['Pname']}: {what}"})

    ekfs = {}
    # a third filter object sees the same points in another order: the degenerate ones (all-zero input, dt = 0, single zeros) FIRST -
    # whatever a filter learns on its first call must not shape its later answers
    for cse in (True, False, "degenerate-first"):
        try:
            ekfs[cse] = pyimpl.py_ekf(dict(d, sensors=[], snoise=[]), {"cse": cse is not False})
        except Exception as e:
            fail(f"compile-refused:{type(e).__name__}", f"refused by python.compile_ekf (cse={cse}): {e!r}"[:300])
            return {"n": 1, "fails": fails}
    n = skipped = 0
    Pm = R.M(case["P"])
    Mn = ref.Mn()
    pts = list(space.grid_points(ref.st + ref.ct, case["per_symbol"], case["seed"], case["dts"]))
    degfirst = sorted(range(len(pts)), key=lambda i_: (-sum(1 for v_ in pts[i_].values() if v_ == 0.0), i_))
    for pi, env0 in enumerate(pts):
      for which in ("fwd", "deg"):
        env = env0 if which == "fwd" else pts[degfirst[pi]]
        full = ref.env(env)
        try:
            fx, Pn = ref.predict(full, Pm)
        except R.Singular:
            skipped += 1
            continue
        scale = float(max(R.maxabs(Pn), R.maxabs(Pm), 1))
        if case.get("abs_scale"):
            scale = float(max(R.maxabs(Pn), R.maxabs(Pm)))
        for cse, ekf in ekfs.items():
            if (cse == "degenerate-first") != (which == "deg"):
                continue
            state = ekf.State(**{s: env[s] for s in ref.st})
            control = ekf.Control(**{s: env[s] for s in ref.ct})
            cov = ekf.Covariance.from_data(np.array(case["P"], dtype=float))
            snap = (state.data.copy(), cov.data.copy(), control.data.copy(), ekf.process_noise.copy())
            try:
                out = ekf.process_model(env["dt"], state, cov, control)
                out2 = ekf.process_model(env["dt"], state, cov, control)
            except Exception as e:
                fail(f"process_model-raises:{type(e).__name__}", f"cse={cse} {type(e).__name__}: {str(e)[:200]} at {env}")
                break
            n += 1
            if not ref.ct:  # control may be omitted for a control-free model; the result must be the same
                try:
                    out3 = ekf.process_model(env["dt"], state, cov)
                    if not (np.array_equal(out.state.data, out3.state.data) and np.array_equal(out.covariance.data, out3.covariance.data)):
                        fail("control-omitted-differs", f"cse={cse} process_model(dt, state, cov) without control differs from the call with an empty Control at {env}")
                except Exception as e:
                    fail(f"control-omitted-raises:{type(e).__name__}", f"cse={cse} process_model without control on a control-free model raised {e!r}"[:300])
            if not (np.array_equal(snap[0], state.data) and np.array_equal(snap[1], cov.data)
                    and np.array_equal(snap[2], control.data) and np.array_equal(snap[3], ekf.process_noise)):
                fail("inputs-modified", f"cse={cse} process_model changed one of its inputs at {env}")
            if not (np.array_equal(out.state.data, out2.state.data) and np.array_equal(out.covariance.data, out2.covariance.data)):
                fail("not-repeatable", f"cse={cse} second identical call returned a different result at {env}")
            # process noise matrix assembled by name
            if ekf.process_noise.shape != (len(ref.ct), len(ref.ct)) or any(
                    not pyimpl.close(ekf.process_noise[i, j], Mn[i][j], 1e-12)
                    for i in range(len(ref.ct)) for j in range(len(ref.ct))):
                fail("process-noise-matrix", f"process noise {ekf.process_noise.tolist()} != by-name {R.tofloat(Mn)}")
            got = pyimpl.vec_by_name(out.state)
            for i, s in enumerate(ref.st):
                if not pyimpl.close(got[s], fx[i], REL):
                    fail("state-mismatch", f"cse={cse} state '{s}' = {got[s]!r}, f(x,u) = {float(fx[i])!r} at {env}")
                    break
            gP = out.covariance.data
            if gP.shape != (len(ref.st), len(ref.st)):
                fail("covariance-shape", f"covariance shape {gP.shape}")
            else:
                for i in range(len(ref.st)):
                    for j in range(len(ref.st)):
                        if not pyimpl.close(gP[i, j], Pn[i][j], REL, scale):
                            fail("covariance-mismatch", f"cse={cse} P'[{i},{j}] = {gP[i, j]!r}, G P G^T + V M V^T gives "
                                 f"{float(Pn[i][j])!r} at {env}")
                            break
                    else:
                        continue
                    break
        if fails:
            break
      if fails:
          break
    seen, uniq = set(), []
    for f in fails:
        if f["key"] not in seen:
            seen.add(f["key"])
            uniq.append(f)
    return {"n": n, "fails": uniq, "nontrivial": len(ref.ct) >= 1 or len(ref.st) >= 2,
            "counters": {"points_skipped_singular": skipped}, "outcomes": ["evaluated"] if n else ["all-skipped"],
            "sample": {"program": d["name"], "P": case["Pname"], "pnoise": d["pnoise"], "predictions": n}}


REQUIRED_OUTCOMES = ["evaluated", "interleaved"]
