"""C14 - structurally invalid definitions are refused; valid ones are accepted (fault enumeration)."""
from __future__ import annotations

import os
import sys

from fv import core, cppharness, faults, space
from fv.claims import CLAIMS

ID = "C14"
LEVEL = "fault_enumeration"
TECHNIQUE = CLAIMS[ID]["technique"]
RULE = (
    "valid seeds = 9 definitions (one with a process noise of exactly 0) covering all four control x calibration combinations, 0..2 sensors, 1..2 readings; from "
    "each, EVERY single structural fault of every listed kind at every applicable position (overlap: each symbol into "
    "each other set; coverage: each update dropped / re-keyed to a control, calibration, undeclared symbol / extra; "
    "calibration map: each key dropped / renamed / replaced by a state / extras / map without calibration; process noise: "
    "each entry dropped / negative / moved to a state, calibration, undeclared symbol / extras / noise with no controls; "
    "sensor model: each reading depending on each control / an undeclared symbol; sensor noise: each sensor's noise "
    "dropped, each reading's noise dropped / renamed, extra reading, extra sensor), then (thorough) every pair of faults of "
    "different kinds; each faulty definition is presented to ui.Model -> python.compile, python.compile_ekf, cpp.compile, "
    "cpp.compile_ekf (model-only entry points only see the fault kinds that are part of their input). Oracle: faulty => "
    "an exception and nothing produced (no object, no header/source file); valid => all four accept and produce; Python and "
    "C++ entry points of the same kind give the same verdict. distinct = distinct (seed, fault set); non-trivial = every "
    "faulty case (the 8 valid seeds are the trivial ones)."
    " Keys are also replaced by near-miss spellings (a fragment, another case, the name doubled, two names glued with a comma, a trailing "
    "blank) for reading noise, sensor noise keys, process noise and calibration values."
    " The noise entry of a control replaced by an entry keyed by a pair of controls (values 0 and 0.5)."
)
ASSUMPTIONS = ["any exception type counts as a refusal", "deviation bound: 0 faults, 1 fault, 2 faults of different kinds"]


def seeds():
    return [
        space.bind_def(2, 1, 1, order=1, sensors_shape=(2, 1)),
        space.bind_def(2, 1, 0, order=0, sensors_shape=(1,)),
        space.bind_def(2, 0, 1, order=2, sensors_shape=(1, 2)),
        space.bind_def(1, 0, 0, order=0, sensors_shape=(1,)),
        space.bind_def(3, 2, 2, order=3, sensors_shape=(2,)),
        space.bind_def(2, 2, 0, order=1, sensors_shape=()),
        space.bind_def(1, 1, 2, order=0, sensors_shape=(1, 1)),
        space.bind_def(2, 0, 0, order=1, sensors_shape=()),
        zero_noise(space.bind_def(2, 2, 1, order=2, sensors_shape=(1,), tag="-zeronoise")),
    ]


def zero_noise(d):
    """a control whose process noise is exactly 0 is not 'missing' or 'negative': the definition is valid"""
    d["pnoise"] = [[d["pnoise"][0][0], 0.0]] + d["pnoise"][1:]
    return d


def cases(tier, seed):
    for si, d in enumerate(seeds()):
        F = faults.fault_list(d)
        yield {"seed_def": si, "faults": []}
        for i in range(len(F)):
            yield {"seed_def": si, "faults": [i]}
        if tier == "thorough":
            for i in range(len(F)):
                for j in range(i + 1, len(F)):
                    if F[i][0] != F[j][0]:
                        yield {"seed_def": si, "faults": [i, j]}


def attempt(entry, raw):
    """returns (accepted: bool, produced: bool, error text)"""
    from formak import cpp as fcpp
    from formak import python as fpy
    from formak import ui

    try:
        m = ui.Model(dt=raw["dt"], state=raw["state"], control=raw["control"], state_model=dict(raw["state_model"]),
                     calibration=raw["calibration"])
    except Exception as e:
        return False, False, f"ui.Model: {type(e).__name__}"
    if entry == "python.compile":
        try:
            obj = fpy.compile(m, dict(raw["calibration_map"]))
            return True, obj is not None, ""
        except Exception as e:
            return False, False, f"{type(e).__name__}: {str(e)[:80]}"
    if entry == "python.compile_ekf":
        try:
            obj = fpy.compile_ekf(m, dict(raw["process_noise"]), {k: dict(v) for k, v in raw["sensor_models"].items()},
                                  {k: dict(v) for k, v in raw["sensor_noises"].items()}, dict(raw["calibration_map"]))
            return True, obj is not None, ""
        except Exception as e:
            return False, False, f"{type(e).__name__}: {str(e)[:80]}"
    with cppharness.Scratch() as sc:
        header = os.path.join(sc.dir, "generated", "f.h")
        source = os.path.join(sc.dir, "f.cpp")
        old = sys.argv
        sys.argv = ["gen", "--header", header, "--source", source, "--namespace", "f"]
        try:
            if entry == "cpp.compile":
                r = fcpp.compile(m, dict(raw["calibration_map"]))
            else:
                r = fcpp.compile_ekf(m, dict(raw["process_noise"]), {k: dict(v) for k, v in raw["sensor_models"].items()},
                                     {k: dict(v) for k, v in raw["sensor_noises"].items()}, dict(raw["calibration_map"]))
            produced = all(os.path.exists(p) and os.path.getsize(p) > 0 for p in (header, source))
            return bool(r.success), produced, ""
        except Exception as e:
            produced = any(os.path.exists(p) and os.path.getsize(p) > 0 for p in (header, source))
            return False, produced, f"{type(e).__name__}: {str(e)[:80]}"
        finally:
            sys.argv = old


ENTRIES = [("python.compile", "model"), ("cpp.compile", "model"), ("python.compile_ekf", "ekf"), ("cpp.compile_ekf", "ekf")]


def eval_case(case):
    d = seeds()[case["seed_def"]]
    F = faults.fault_list(d)
    chosen = [F[i] for i in case["faults"]]
    fails = []
    verdicts = {}
    n = 0
    for entry, scope in ENTRIES:
        visible = [f for f in chosen if f[2] == "model" or scope == "ekf"]
        raw = faults.raw_of(d)
        for f in visible:
            f[3](raw)
        accepted, produced, err = attempt(entry, raw)
        n += 1
        verdicts[entry] = (accepted, bool(visible))
        labels = "; ".join(f"{f[0]}: {f[1]}" for f in visible)
        kinds = "+".join(sorted(set(f[0] for f in visible)))
        if visible:
            if accepted:
                fails.append({"key": f"faulty-accepted:{entry}:{kinds}", "what": f"{d['name']} with [{labels}] was accepted by {entry}"})
            elif produced:
                fails.append({"key": f"refused-but-produced:{entry}:{kinds}", "what": f"{d['name']} with [{labels}]: {entry} raised "
                              f"{err} but left output behind"})
        else:
            if not accepted:
                fails.append({"key": f"valid-refused:{entry}", "what": f"valid definition {d['name']} refused by {entry}: {err}"})
            elif not produced:
                fails.append({"key": f"valid-not-produced:{entry}", "what": f"valid definition {d['name']}: {entry} produced nothing"})
    outcomes = set()
    for entry, (acc, faulty) in verdicts.items():
        outcomes.add(("refused" if not acc else "accepted") + ("-faulty" if faulty else "-valid"))
    for f in chosen:
        outcomes.add("kind:" + f[0])
    return {"n": n, "fails": fails, "nontrivial": bool(chosen), "sig": f"{case['seed_def']}:{case['faults']}",
            "outcomes": sorted(outcomes), "counters": {f"faults{len(chosen)}": 1},
            "sample": {"seed": d["name"], "faults": [f"{f[0]}: {f[1]}" for f in chosen],
                       "verdicts": {e: ("accepted" if a else "refused") for e, (a, _) in verdicts.items()}}}


REQUIRED_OUTCOMES = ["accepted-valid", "refused-faulty", "kind:overlap", "kind:coverage", "kind:calibration-map",
                     "kind:process-noise", "kind:sensor-model", "kind:sensor-noise"]
