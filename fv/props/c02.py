"""C02 - generated C++ computes the symbolic model, its derivatives and noise matrices (compiled and run)."""
from __future__ import annotations

import math

from fv import cppharness, pyimpl, space
from fv import refmodel as R
from fv.claims import CLAIMS
from fv.ekfref import RefEKF

ID = "C02"
LEVEL = "exploration"
TECHNIQUE = CLAIMS[ID]["technique"]
RULE = (
    "programs = BIND with sensors (27 shapes: all four control x calibration presence combinations, 0..3 sensors of 1..3 "
    "readings) + OPS + CSE families; each generated through formak.cpp.compile_ekf (and cpp.compile for the model-only "
    "path), compiled with g++ against the vendored Eigen stand-in and run on 8 all-distinct dyadic points; inputs are set "
    "through the named Options fields and results read through named accessors; one evaluation = one generated function "
    "result (model, process_jacobian, control_jacobian, covariance, sensor model/jacobian/covariance) compared entry by "
    "entry with the reference interpreter / configured noise. CSE on for all, off for all in thorough and every third in "
    "quick. Also a block-size sweep (generated blocks of 1..64 statements; rows with more temporaries than statements), the "
    "3-output CSE programs with the most temporaries, and definitions whose symbols carry sympy assumptions. "
    "distinct = distinct (definition, CSE) pairs; non-trivial = >= 2 input symbols."
    " Saturation constructs (Piecewise) alone and shared by several outputs."
    " Definitions with a declared but unused control / calibration value; for definitions with calibration the same process evaluates the generated functions with two different calibrations (read per point)."
    " Programs whose inputs are named like generator temporaries (_t0.._t4; quick 3, thorough 5): they must compile and compute the model."
)
ASSUMPTIONS = [
    "the vendored Eigen stand-in is at least as permissive as Eigen 3.4 on the slice the generator emits (DESIGN 2.4)",
    "g++ 12 -std=c++17 -O0 -ffp-contract=off; symbol names are C++ identifiers and not C++ keywords / generated member names (names such as _t0 ARE in the alphabet)",
    "8 evaluation points per program (all symbols distinct), singular points skipped",
]
REL = 1e-9


def sensor_sets(i):
    return [(), (1,), (2,), (3,), (1, 2), (2, 1, 3)][i % 6]


def cases(tier, seed):
    defs = []
    shapes = [(n, k, c) for n in (1, 2, 3) for k in (0, 1, 2) for c in (0, 1, 2)]
    for i, (n, k, c) in enumerate(shapes):
        defs.append(space.bind_def(n, k, c, order=i, container="list" if i % 2 else "set", sensors_shape=sensor_sets(i)))
    from fv.props.c03 import with_sensors
    ops = [with_sensors(d) for d in space.family_ops("thorough" if tier == "thorough" else "quick") if len(d["state"]) == 2]
    cse = [with_sensors(d) for d in space.family_cse(tier) if len(d["state"]) == 2]
    defs.append(space.bind_def(5, 4, 3, order=1, sensors_shape=(3, 1), tag="-wide"))  # names x10 < x2, u10 < u2, K < c
    # block-size sweep (n, n*n, n*k, m*n statements per generated block) and the 3-output programs with the most temporaries
    big = space.family_sizes(tier) + [with_sensors(d) for d in space.family_cse(tier)
                                      if any(t in d["name"] for t in ("chain5", "manytemps24", "ctl-only"))]
    defs += big
    defs += [with_sensors(d) for d in space.family_piecewise() if len(d["state"]) == 2] + space.family_piecewise()[1:2]
    # symbols declared with sympy assumptions (Symbol("x", real=True) is a different object from Symbol("x"))
    defs += [space.assumed(defs[13]), space.assumed(defs[22], ["x", "w"])]
    defs += [space.with_unused(defs[13]), space.with_unused(defs[17])]  # a declared but unused control / calibration value
    # inputs NAMED like the temporaries the generator invents (_t0.._t4): still an accepted model, so the C++ must compile and
    # compute it (wave-11 seed C02k: the reservation of declared names compared 'double _t0' with '_t0')
    from fv.props.c08 import TEMP_NAMED
    tn = {"x": "_t0", "y": "_t1", "u": "_t2", "c": "_t3", "z": "_t4"}
    named = [space.rename_def(d, tn) for d in [with_sensors(d) for d in space.family_cse(tier)] if d["name"] in TEMP_NAMED]
    defs += named if tier == "thorough" else named[:3]
    if tier == "quick":
        special = [d for d in ops if any(t in d["name"] for t in ("atan-tan", "tan-atan", "log-exp", "sqrt-square", "div-by-", "inv-square",
                                                                   "reciprocal", "log-square", "log-prod", "log-neg")) and d not in ops[::3]]
        defs = defs + ops[::3] + special + cse[::3]
    else:
        defs = defs + ops + cse
    # several different programs generated one after the other in ONE process, then each compiled and run: generation must
    # not depend on what was generated before (caches keyed too coarsely, one-shot generators shared between programs)
    seq = [d for d in ops if any(t in d["name"] for t in ("neg-", "div-by", "pow", "inv-"))][:4] + defs[5:7]
    yield {"path": "sequence", "defs": seq, "seed": seed, "cse": True}
    yield {"path": "sequence", "defs": list(reversed(seq)), "seed": seed, "cse": True}
    for i, d in enumerate(defs):
        yield {"def": d, "cse": True, "seed": seed, "path": "ekf"}
        if tier == "thorough" or i % 3 == 0:
            yield {"def": d, "cse": False, "seed": seed, "path": "ekf"}
        if tier == "thorough" or i % 4 == 0:
            yield {"def": d, "cse": i % 2 == 0, "seed": seed, "path": "model"}


def points_for(d, seed, count=8):
    st, ca, ct = space.def_symbols(d)
    n = len(st)
    pts = []
    for env in space.some_points(st + ct, count, seed, dts=(0.125, -0.25)):
        P = [[(1.0 + 0.25 * i) if i == j else 0.125 * (i + j + 1) / 4 for j in range(n)] for i in range(n)]
        pts.append({"dt": env["dt"], "x": {s: env[s] for s in st}, "u": {c: env[c] for c in ct}, "P": P, "env": env,
                    "z": {k: {r: 0.5 + 0.25 * ri for ri, (r, _) in enumerate(rs)} for k, rs in d["sensors"]}})
    return pts


def eval_sequence(case):
    """generate all programs first (same process), only then build and run each from the text generated in step 1"""
    import os
    from fv import core
    fails, n = [], 0
    with cppharness.Scratch() as sc:
        gen = []
        for i, d in enumerate(case["defs"]):
            os.makedirs(os.path.join(sc.dir, f"p{i}", "generated"), exist_ok=True)
            with core.quiet():
                try:
                    r, header, source = cppharness.generate(d, {"cse": case["cse"], "innovation_filtering": None}, os.path.join(sc.dir, f"p{i}"), "gen")
                except Exception as e:
                    fails.append({"key": "generate-failed:sequence", "what": f"{d['name']} (#{i + 1} in one process): {e!r}"[:300]})
                    continue
            gen.append((i, d, header, source))
        for i, d, header, source in gen:
            ref = RefEKF(d)
            pts = points_for(d, case["seed"], 3)
            pdir = os.path.join(sc.dir, f"p{i}")
            drv = os.path.join(pdir, "driver.cpp")
            open(drv, "w").write(cppharness.ekf_driver(d, "gen"))
            exe = os.path.join(pdir, "drv")
            ok, err = cppharness.gxx(pdir, [source, drv], exe)
            if not ok:
                fails.append({"key": "compile-failed:sequence", "what": f"{d['name']} generated as #{i + 1} in one process does not compile: "
                              f"{cppharness.first_error(err)}"})
                continue
            rc, out, err = cppharness.run(exe, cppharness.ekf_input(d, pts))
            res = cppharness.parse(out)
            for p, pt in enumerate(pts):
                full = ref.env(pt["env"])
                try:
                    fx, G = ref.fx(full), ref.G(full)
                    hs = {k: ref.hx(k, full) for k in ref.h}
                except R.Singular:
                    continue
                exp = {("model", s): fx[j] for j, s in enumerate(ref.st)}
                exp.update({("G", str(a), str(b)): G[a][b] for a in range(len(ref.st)) for b in range(len(ref.st))})
                for k, hx in hs.items():
                    exp.update({("h", k, r): hx[j] for j, r in enumerate(ref.readings(k))})
                for key, v in exp.items():
                    n += 1
                    g = res.get(p, {}).get(key)
                    if g is None or not pyimpl.close(g, v, REL):
                        if not any(f["key"] == "value-mismatch:sequence" for f in fails):
                            fails.append({"key": "value-mismatch:sequence", "what": f"{d['name']} generated as #{i + 1} of {len(gen)} programs in one "
                                          f"process: {key} = {g!r}, expected {float(v)!r} at {pt['env']}"})
                        break
    return {"n": n, "fails": fails[:3], "sig": "sequence:" + case["defs"][0]["name"], "outcomes": ["compiled-and-ran", "sequence"],
            "sample": {"path": "sequence", "programs_generated_in_one_process": [d["name"] for d in case["defs"]]}}


def eval_case(case):
    if case["path"] == "sequence":
        return eval_sequence(case)
    d = case["def"]
    ref = RefEKF(d)
    fails = []
    tag = f"{d['name']} cse={case['cse']} {case['path']}"

    def fail(key, what):
        fails.append({"key": f"{key}@{d['name'].split('-')[0]}", "what": f"{tag}: {what}"})

    pts = points_for(d, case["seed"])
    percal = case["path"] == "ekf" and bool(d["calibration"])
    if percal:
        # calibration is an ARGUMENT of the generated functions: the same process evaluates them with the definition's calibration,
        # with another one, and with the first again
        cal0 = dict((k_, v_) for k_, v_ in d["calmap"])
        cal1 = {k_: v_ * -1.5 + 0.375 * (i_ + 1) for i_, (k_, v_) in enumerate(sorted(cal0.items()))}
        pts = [dict(p_, cal=cal0) for p_ in pts] + [dict(p_, cal=cal1) for p_ in pts[:3]] + [dict(p_, cal=cal0) for p_ in pts[:1]]
    if case["path"] == "model":
        res = cppharness.build_and_run_model(d, {"cse": case["cse"]}, pts)
    else:
        res = cppharness.build_and_run_ekf(d, {"cse": case["cse"], "innovation_filtering": None}, pts, cal_per_point=percal)
    if not res["ok"]:
        fail(f"{res['stage']}-failed", f"{res['stage']} failed: {res['error']}")
        return {"n": 1, "fails": fails, "outcomes": [f"{res['stage']}-failed"]}
    n = skipped = 0

    def cmp(p, key, refv, env):
        nonlocal n
        got = res["results"].get(p, {}).get(key)
        n += 1
        if got is None:
            fail(f"missing-output:{key[0]}", f"driver printed no value for {key}")
            return
        if math.isnan(got):
            fail(f"unassigned-entry:{key[0]}", f"{key} was never assigned by the generated code (NaN poison) at {env}")
            return
        if not pyimpl.close(got, refv, REL):
            fail(f"value-mismatch:{key[0]}", f"{key} = {got!r}, expected {float(refv)!r} at {env}")

    for p, pt in enumerate(pts):
        full = ref.env(pt["env"])
        if percal:
            full.update(pt["cal"])
        try:
            fx = ref.fx(full)
            G, V = ref.G(full), ref.V(full)
            sens = {k: (ref.hx(k, full), ref.H(k, full)) for k in ref.h} if case["path"] == "ekf" else {}
        except R.Singular:
            skipped += 1
            continue
        for i, s in enumerate(ref.st):
            cmp(p, ("model", s), fx[i], pt["env"])
        if case["path"] == "model":
            continue
        Mn = ref.Mn()
        for i in range(len(ref.st)):
            for j in range(len(ref.st)):
                cmp(p, ("G", str(i), str(j)), G[i][j], pt["env"])
            for j in range(len(ref.ct)):
                cmp(p, ("V", str(i), str(j)), V[i][j], pt["env"])
        for i in range(len(ref.ct)):
            for j in range(len(ref.ct)):
                cmp(p, ("M", str(i), str(j)), Mn[i][j], pt["env"])
        for i, s_ in enumerate(ref.st):  # Covariance::<name>() is the (i, i) entry of the name-ordered matrix
            a, b = res["results"].get(p, {}).get(("pPd", s_)), res["results"].get(p, {}).get(("pP", str(i), str(i)))
            n += 1
            if a is None or b is None or a != b:
                fail("covariance-accessor", f"Covariance::{s_}() = {a!r} but covariance.data({i},{i}) = {b!r}")
            rp = res["results"].get(p, {})
            for const_key, plain_key in ((("cpPd", s_), ("pPd", s_)), (("cpx", s_), ("px", s_)), (("cmodel", s_), ("model", s_))):
                n += 1
                if rp.get(const_key) != rp.get(plain_key):
                    fail("const-accessor", f"{const_key[0][1:]} '{s_}' read through a const reference = {rp.get(const_key)!r}, through a "
                         f"non-const object = {rp.get(plain_key)!r}")
        for k, (hx, H) in sens.items():
            rn = ref.readings(k)
            Q = ref.Q(k)
            for i, r in enumerate(rn):
                cmp(p, ("h", k, r), hx[i], pt["env"])
                for j in range(len(ref.st)):
                    cmp(p, ("H", k, str(i), str(j)), H[i][j], pt["env"])
                for j in range(len(rn)):
                    cmp(p, ("Q", k, str(i), str(j)), Q[i][j], pt["env"])
            got_size = res["results"].get(p, {}).get(("size", k))
            if got_size != len(rn):
                fail("reading-size", f"{k}::size = {got_size}, readings {rn}")
        if len(fails) > 6:
            break
    seen, uniq = set(), []
    for f in fails:
        if f["key"] not in seen:
            seen.add(f["key"])
            uniq.append(f)
    nsym = len(ref.st) + len(ref.ca) + len(ref.ct)
    combo = f"control={'y' if ref.ct else 'n'},calibration={'y' if ref.ca else 'n'}"
    return {"n": n, "fails": uniq, "nontrivial": nsym >= 2, "counters": {"points_skipped_singular": skipped, "programs": 1},
            "outcomes": ["compiled-and-ran", combo, f"sensors{len(d['sensors'])}", f"path-{case['path']}"],
            "sample": {"program": d["name"], "cse": case["cse"], "path": case["path"], "values_compared": n,
                       "sensors": {k: len(rs) for k, rs in d["sensors"]}}}


REQUIRED_OUTCOMES = ["compiled-and-ran", "control=y,calibration=y", "control=y,calibration=n", "control=n,calibration=y",
                     "control=n,calibration=n", "sequence", "sensors0", "sensors1", "sensors2", "sensors3", "path-ekf", "path-model"]
