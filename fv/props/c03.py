"""C03 - Python filter Jacobians are the true partial derivatives, laid out by name."""
from __future__ import annotations

import numpy as np

from fv import pyimpl, space
from fv.claims import CLAIMS
from fv.ekfref import RefEKF
from fv.refmodel import Singular

ID = "C03"
LEVEL = "exploration"
TECHNIQUE = CLAIMS[ID]["technique"]
RULE = (
    "programs = BIND with sensors (27 process shapes n,k,c in {1,2,3}x{0,1,2}x{0,1,2}; sensor sets of 1..3 sensors with "
    "1..3 readings each, keys/readings declared out of order; thorough: + declaration-order permutations) + OPS with an "
    "identity and a nonlinear sensor; CSE on and off; full dyadic grid; one evaluation = one process_jacobian / "
    "control_jacobian / sensor_jacobian call compared entry-by-entry with forward-mode derivatives of our own AST. "
    "Also definitions whose symbols carry sympy assumptions (all symbols real; only some; finite) and a block-size sweep "
    "(Jacobian blocks of 1..64 entries, dense rows, rows with more temporaries than entries); filters that share sensor KEYS but not sensor expressions are built in one process and each checked after all were built. One ui.Model object (and one set of noise / sensor dictionaries) is also compiled four times with different calibration maps and CSE settings; every compiled object is checked against ITS calibration right after compiling and again after all were compiled. "
    "distinct = distinct definition records; non-trivial = some Jacobian entry depends on the evaluation point."
    " After the first compile of the shared objects the caller edits its own dictionaries (other expressions, noises, calibration values) before the filter is used for the first time: the Jacobians must be the partials of the functions the filter evaluates."
    " Programs with shared sub-expressions nested inside other shared sub-expressions (nest3, chain3..5, manytemps13, dtshare) and definitions with a declared but unused control / calibration value."
)
ASSUMPTIONS = [
    "grammar/depth/grid bounds as C01; non-differentiable or singular points skipped and counted",
    "row/column order = sorted names (the library's documented layout), read through the public _arglist name map",
]
REL = 1e-9


def with_sensors(d):
    """give an OPS/CSE program (states y, x; calibration c) an identity sensor and a nonlinear two-reading sensor"""
    x, y, c = space.S("x"), space.S("y"), space.S("c")
    d = dict(d)
    d["sensors"] = [["pos", [["px", x]]],
                    ["mix", [["b", space.mul(x, space.add(y, c))], ["a", space.add(space.fn("sin", x), space.mul(c, y))]]]]
    d["snoise"] = [["mix", [["a", 0.5], ["b", 2.0]]], ["pos", [["px", 0.25]]]]
    return d


def cases(tier, seed):
    per = 2 if tier == "quick" else 3
    defs = space.family_bind(tier, with_sensors=True)
    defs += [with_sensors(d) for d in space.family_ops(tier) if len(d["state"]) == 2]
    # symbols declared with sympy assumptions (Symbol("x", real=True) is not the object Symbol("x")): all of them, or only some
    b = space.family_bind("quick", with_sensors=True)
    defs += [space.assumed(b[13]), space.assumed(b[26]), space.assumed(b[22], ["x", "w"]), space.assumed(b[17], ["y", "k"], "finite"),
             space.assumed(b[27])]
    defs += [space.with_unused(b[13]), space.with_unused(b[17])]  # a declared but unused control / calibration value
    # block-size sweep: Jacobian blocks of 1..64 entries, rows with more temporaries than entries
    defs += space.family_sizes(tier)
    # shared sub-expressions nested inside other shared sub-expressions, all depending on the differentiation variables (a
    # Jacobian assembled through the chain rule over shared terms must follow the dependence through every level)
    defs += [with_sensors(d) for d in space.family_cse("quick" if tier == "quick" else "thorough")
             if any(t in d["name"] for t in ("nest3", "chain", "manytemps13", "dtshare", "temp-is-output"))]
    for d in defs:
        nsym = len(d["state"]) + len(d["control"])
        yield {"def": d, "per_symbol": per if nsym <= 4 else 2, "seed": seed, "dts": [0.125, -0.25]}
    # look-alike filters compiled one after the other in ONE process (both orders): no filter may depend on its predecessors
    look = [with_sensors(d) for d in space.family_ops("thorough") if len(d["state"]) == 2]
    look = [d for d in look if any(t in d["name"] for t in ("neg-", "pow", "div-by", "inv-", "recip", "mul-state", "sub-state", "add-state"))]
    # ... and filters whose sensors share their KEYS (gps, alt) but not their expressions or sizes
    samekeys = [space.bind_def(2, 1, 1, order=0, sensors_shape=(2, 1)), space.bind_def(2, 1, 1, order=3, sensors_shape=(1, 2), tag="-b"),
                space.bind_def(3, 0, 1, order=2, sensors_shape=(3, 2)), space.bind_def(2, 0, 0, order=1, sensors_shape=(1, 1))]
    for order in ("fwd", "rev"):
        yield {"kind": "sequence", "defs": (look if tier == "thorough" else look[::2]) + samekeys, "order": order, "seed": seed}
    # ONE ui.Model / sensor dict compiled several times with different calibration maps / CSE settings
    for d_ in (space.bind_def(2, 1, 2, order=1, sensors_shape=(2, 1)), space.bind_def(3, 0, 1, order=2, sensors_shape=(1, 3))):
        yield {"kind": "shared", "def": d_, "seed": seed}


def cmp_matrix(name, got, ref, shape, fails, d, env, cse):
    if not isinstance(got, np.ndarray) or got.shape != shape:
        fails.append({"key": f"{name}-shape", "what": f"{d['name']} cse={cse}: {name} shape "
                      f"{getattr(got, 'shape', type(got))} expected {shape}"})
        return False
    varies = False
    for i in range(shape[0]):
        for j in range(shape[1]):
            if not pyimpl.close(got[i, j], ref[i][j], REL):
                fails.append({"key": f"{name}-entry", "what": f"{d['name']} cse={cse}: {name}[{i},{j}] = {got[i, j]!r}, "
                              f"true partial {float(ref[i][j])!r} at {env}"})
                return False
    return True


def eval_sequence(case):
    defs = list(case["defs"])
    if case["order"] == "rev":
        defs.reverse()
    fails, n, built = [], 0, []

    def check(d, ekf, when, idx):
        nonlocal n
        ref = RefEKF(d)
        for env in space.some_points(ref.st + ref.ct, 2, case["seed"], dts=(0.125, -0.25)):
            full = ref.env(env)
            try:
                G, V = ref.G(full), ref.V(full)
                Hs = {k: ref.H(k, full) for k in ref.h}
            except Singular:
                continue
            try:
                state = ekf.State(**{s_: env[s_] for s_ in ref.st})
                control = ekf.Control(**{s_: env[s_] for s_ in ref.ct})
                got = [("process_jacobian", ekf.process_jacobian(env["dt"], state, control), G),
                       ("control_jacobian", ekf.control_jacobian(env["dt"], state, control), V)]
                got += [("sensor_jacobian", ekf.sensor_jacobian(k, state), Hs[k]) for k in ref.h]
            except Exception as e:
                fails.append({"key": f"sequence-raises:{type(e).__name__}", "what": f"{d['name']} ({when}): {e!r}"[:300]})
                return
            n += len(got)
            for name, g, r in got:
                if any(not pyimpl.close(g[i, j], r[i][j], REL) for i in range(len(r)) for j in range(len(r[0]) if r else 0)):
                    if not any(f["key"] == f"sequence-jacobian:{when}" for f in fails):
                        fails.append({"key": f"sequence-jacobian:{when}", "what": f"{d['name']} compiled as #{idx} of a sequence ({case['order']}): "
                                      f"{name} = {g.tolist()}, true partials {[[float(v) for v in row] for row in r]} at {env} [checked {when}]"})
                    return

    for d in defs:
        try:
            ekf = pyimpl.py_ekf(d)
        except Exception as e:
            fails.append({"key": f"compile-refused:{type(e).__name__}", "what": f"{d['name']}: {e!r}"[:300]})
            continue
        built.append((d, ekf))
        check(d, ekf, "right after compiling", len(built))
    for i, (d, ekf) in enumerate(built):
        check(d, ekf, "after all were compiled", i + 1)
    return {"n": n, "fails": fails[:3], "sig": f"sequence:{case['order']}", "outcomes": ["evaluated", "sequence"],
            "sample": {"kind": "sequence", "order": case["order"], "filters_in_one_process": len(built)}}


def eval_case(case):
    if case.get("kind") == "shared":
        from fv import ekfcheck
        n, fails = ekfcheck.shared_inputs(case["def"], case["seed"], aspects=("jacobians",))
        return {"n": n, "fails": fails, "sig": "shared:" + case["def"]["name"], "outcomes": ["evaluated", "shared-inputs"], "nontrivial": True,
                "sample": {"kind": "shared-inputs", "definition": case["def"]["name"], "compiles_of_one_ui_model": 4, "calls": n}}
    if case.get("kind") == "sequence":
        return eval_sequence(case)
    d = case["def"]
    ref = RefEKF(d)
    fails = []
    ekfs = {}
    for cse in (True, False):
        try:
            ekfs[cse] = pyimpl.py_ekf(d, {"cse": cse})
        except Exception as e:
            fails.append({"key": f"compile-refused:{type(e).__name__}", "what": f"{d['name']} refused by python.compile_ekf "
                          f"(cse={cse}): {type(e).__name__}: {str(e)[:300]}"})
    if fails:
        return {"n": 1, "fails": fails}
    n = skipped = 0
    n_s, n_c = len(ref.st), len(ref.ct)
    jac_sigs = set()
    for env in space.grid_points(ref.st + ref.ct, case["per_symbol"], case["seed"], case["dts"]):
        full = ref.env(env)
        try:
            G, V = ref.G(full), ref.V(full)
            Hs = {k: ref.H(k, full) for k in ref.h}
        except Singular:
            skipped += 1
            continue
        jac_sigs.add(tuple(round(float(v), 9) for r in G for v in r))
        for cse, ekf in ekfs.items():
            try:
                state = ekf.State(**{s: env[s] for s in ref.st})
                control = ekf.Control(**{s: env[s] for s in ref.ct})
                gG = ekf.process_jacobian(env["dt"], state, control)
                gV = ekf.control_jacobian(env["dt"], state, control)
                gH = {k: ekf.sensor_jacobian(k, state) for k in ref.h}
            except Exception as e:
                fails.append({"key": f"jacobian-raises:{type(e).__name__}", "what": f"{d['name']} cse={cse}: "
                              f"{type(e).__name__}: {str(e)[:200]} at {env}"})
                break
            n += 2 + len(gH)
            cmp_matrix("process_jacobian", gG, G, (n_s, n_s), fails, d, env, cse)
            cmp_matrix("control_jacobian", gV, V, (n_s, n_c), fails, d, env, cse)
            for k in ref.h:
                cmp_matrix("sensor_jacobian", gH[k], Hs[k], (len(ref.readings(k)), n_s), fails, d, env, cse)
        if fails:
            break
    seen, uniq = set(), []
    for f in fails:
        if f["key"] not in seen:
            seen.add(f["key"])
            f["key"] = f"{f['key']}@{d['name'].split('-')[0]}"
            uniq.append(f)
    return {"n": n, "fails": uniq, "nontrivial": len(jac_sigs) > 1,
            "counters": {"points_skipped_singular": skipped, "programs": 1},
            "outcomes": ["evaluated"] if n else ["all-skipped"],
            "sample": {"program": d["name"], "sensors": {k: {r: space.show(a) for r, a in rs} for k, rs in d["sensors"]},
                       "jacobian_calls": n}}


REQUIRED_OUTCOMES = ["evaluated", "sequence"]
