"""C17 - estimator parameters round-trip; fitting only retunes noise."""
from __future__ import annotations

import copy
import dataclasses

import numpy as np

from fv import pyimpl, space
from fv.claims import CLAIMS

ID = "C17"
CASE_TIMEOUT_S = 2400  # per-case alarm (seconds); a case that does not finish is reported as a violation
LEVEL = "exploration"
TECHNIQUE = CLAIMS[ID]["technique"]
RULE = (
    "estimators = 4 models (k in {0,1,2} controls, 1-2 sensors, 1-2 readings, with/without calibration) x 2 noise "
    "assignments, created with an explicit Config. Parameter half: for EVERY Config field x every value of its domain "
    "(cse {T,F}; python_modules {default, ('numpy','math')}; extra_validation {F,T}; max_dt_sec {0.1,0.05,1.0}; "
    "innovation_filtering {None,5.0,0.5}) set_params(field=v) must change exactly that field; every pair of fields set "
    "together; set_params(**get_params()) and sklearn.base.clone preserve every parameter; unknown names (9 spellings) "
    "are refused and change nothing (unknown = misspellings of every real parameter - trailing/leading underscore or blank, upper case, truncated, "
    "and the real name behind or in front of a double-underscore component as in bogus__<name>, <name>__bogus - and every other attribute name the estimator "
    "object has, before and after its first use; the instance dictionary must be untouched). Fit half: every (estimator, training matrix) pair of the tier's menu (matrices of 4-6 "
    "rows over the C16 alphabet; quick 12 pairs, thorough 48) is fitted; outcome must be MinimizationFailure or an "
    "estimator with the identical model, sensor models, calibration and config whose noise maps name exactly the original "
    "controls / sensors / readings with finite magnitudes and strictly positive process noise. distinct = (estimator, "
    "operation); non-trivial = all."
    " Fits are also run from three configurations in which every field differs from its default (incl. extra_validation=True)."
    " Fit models include sensors with different numbers of readings in both size orders along the key order."
)
ASSUMPTIONS = ["scipy.optimize.minimize is deterministic for fixed inputs", "training matrices are finite with dyadic entries"]


def models():
    return [space.bind_def(2, 1, 1, order=1, sensors_shape=(1,), tag="-est"),
            space.bind_def(2, 2, 0, order=0, sensors_shape=(2,), tag="-est"),
            space.bind_def(2, 0, 1, order=2, sensors_shape=(1, 2), tag="-est"),
            space.bind_def(3, 1, 0, order=3, sensors_shape=(1, 1), tag="-est"),
            # sensors with different numbers of readings, in both orders of size along the key order (alt < gps < imu)
            space.bind_def(2, 1, 0, order=1, sensors_shape=(2, 1), tag="-est"),
            space.bind_def(2, 0, 1, order=0, sensors_shape=(2, 1, 3), tag="-est")]


def noise_variant(d, v):
    d = copy.deepcopy(d)
    if v:
        d["pnoise"] = [[k, x * 2.0] for k, x in d["pnoise"]]
        d["snoise"] = [[k, [[r, x / 2.0] for r, x in rs]] for k, rs in d["snoise"]]
    return d


def make(d, cfgkw=None):
    from formak import python as fpy
    cfg = fpy.Config(**(cfgkw or {"common_subexpression_elimination": False, "innovation_filtering": 5.0, "max_dt_sec": 0.1}))
    return fpy.SklearnEKFAdapter.Create(pyimpl.ui_model(d), pyimpl.pnoise(d), pyimpl.sensors(d), pyimpl.snoise(d), pyimpl.calmap(d),
                                        config=cfg)


FIT_CONFIGS = [
    {"common_subexpression_elimination": True, "innovation_filtering": 3.0, "max_dt_sec": 0.05, "extra_validation": True},
    {"common_subexpression_elimination": False, "innovation_filtering": None, "max_dt_sec": 0.25, "extra_validation": True,
     "python_modules": ("numpy", "math")},
    {"common_subexpression_elimination": True, "innovation_filtering": 0.5, "max_dt_sec": 1.0, "python_modules": ("numpy", "math")},
]


def domains():
    from formak import python as fpy
    return {
        "common_subexpression_elimination": [True, False],
        "python_modules": [fpy.DEFAULT_MODULES, ("numpy", "math")],
        "extra_validation": [False, True],
        "max_dt_sec": [0.1, 0.05, 1.0],
        "innovation_filtering": [None, 5.0, 0.5],
    }


def cases(tier, seed):
    nm = len(models())
    for mi in range(4):
        for v in (0, 1):
            yield {"kind": "params", "model": mi, "noise": v}
    fits = ([(m, (m + x) % 2, x) for m in range(nm) for x in ((0, 1, 2) if m < 4 else (0, 1))] if tier == "quick"
            else [(m, v, x) for m in range(nm) for v in (0, 1) for x in range(6)])
    for m, v, x in fits:
        yield {"kind": "fit", "model": m, "noise": v, "matrix": x, "seed": seed}
    # "created with an explicit configuration": fits from configurations in which EVERY field differs from its default
    for ci in range(len(FIT_CONFIGS)):
        for m, x in ((0, 0), (2, 1)) if tier == "quick" else ((0, 0), (2, 1), (1, 2), (3, 3)):
            yield {"kind": "fit", "model": m, "noise": 0, "matrix": x, "seed": seed, "config": ci}


def model_fields(m):
    return (set(m.state), set(m.control), set(m.calibration), dict(m.state_model), m.dt)


def same_params(a, b, what):
    """compare two get_params() dicts field by field (symbolic models by content)"""
    diffs = []
    for k in a:
        if k == "symbolic_model":
            if model_fields(a[k]) != model_fields(b[k]):
                diffs.append(k)
        elif a[k] != b[k]:
            diffs.append(k)
    return diffs


def eval_params(case):
    import sklearn.base
    from formak.exceptions import ModelConstructionError
    d = noise_variant(models()[case["model"]], case["noise"])
    tag = f"{d['name']} noise{case['noise']}"
    fails = []
    n = 0

    def fail(key, what):
        if not any(f["key"] == key for f in fails):
            fails.append({"key": key, "what": f"{tag}: {what}"})

    dom = domains()
    fields = [f.name for f in dataclasses.fields(make(d).config)]
    if sorted(fields) != sorted(dom):
        fail("config-fields", f"Config fields {fields} differ from the enumerated domain {sorted(dom)}")
    singles = [(f, v) for f in dom for v in dom[f]]
    combos = [[s] for s in singles] + [[a, b] for i, a in enumerate(singles) for b in singles[i + 1:] if a[0] != b[0]]
    bases = [None, {"common_subexpression_elimination": True, "innovation_filtering": None, "max_dt_sec": 0.25, "extra_validation": False,
                    "python_modules": ("numpy", "math")}]
    for combo, base_cfg in [(c_, b_) for c_ in combos for b_ in bases]:
        if base_cfg is not None and len(combo) > 1 and combos.index(combo) % 3:
            continue  # second base configuration (a None-valued field, non-default values): all singles, every third pair
        est = make(d, base_cfg)
        before = dict(est.get_params())
        cfg0 = est.config
        try:
            ret = est.set_params(**{f: v for f, v in combo})
        except Exception as e:
            fail("set_params-raises", f"set_params({combo}) raised {e!r}")
            continue
        n += 1
        after = est.get_params()
        if ret is not est:
            fail("set_params-return", "set_params did not return the estimator")
        for f in fields:
            want = dict(combo).get(f, getattr(cfg0, f))
            if getattr(after["config"], f) != want:
                fail("config-field", f"after set_params({combo}) on a config {'with innovation_filtering=None' if base_cfg else '(default-like)'} "
                     f"config.{f} = {getattr(after['config'], f)!r}, expected {want!r}")
        d2 = same_params({k: v for k, v in before.items() if k != "config"}, {k: v for k, v in after.items() if k != "config"}, "")
        if d2:
            fail("set_params-touches-other-params", f"set_params({combo}) changed {d2}")
    # round trips
    for cfgkw in ({"common_subexpression_elimination": False, "innovation_filtering": None, "max_dt_sec": 0.05},
                  {"common_subexpression_elimination": True, "innovation_filtering": 0.5, "max_dt_sec": 1.0, "extra_validation": False}):
        est = make(d, cfgkw)
        before = dict(est.get_params())
        est.set_params(**est.get_params())
        n += 1
        if same_params(before, est.get_params(), ""):
            fail("get-set-roundtrip", f"set_params(**get_params()) changed {same_params(before, est.get_params(), '')}")
        try:
            cl = sklearn.base.clone(est)
            n += 1
            diffs = same_params(before, cl.get_params(), "")
            if diffs:
                fail("clone", f"clone differs in {diffs}")
        except Exception as e:
            fail("clone-raises", f"clone raised {e!r}")
        # unknown names: misspellings of the real parameters AND every other name the estimator object answers to (methods,
        # class attributes, attributes that appear once the estimator has been used) - none of them is a parameter
        known = set(est.get_params()) | {f.name for f in dataclasses.fields(est.config)}
        for used in (False, True):
            if used:
                try:
                    width = len(d["control"]) + sum(len(rs) for _, rs in d["sensors"])
                    est.transform(np.array([[0.25 * (i + j) for j in range(width)] for i in range(3)]))
                except Exception as e:
                    fail("transform-raises", f"transform raised {e!r}"[:200])
            attr_names = sorted(a for a in set(dir(est)) | set(vars(est)) if not a.startswith("__") and a not in known)
            spellings = ["innovation_filter", "Config", "max_dt", "process_noises"] + [k_ + "_" for k_ in sorted(known)] + \
                [k_.upper() for k_ in sorted(known)] + [k_[:-1] for k_ in sorted(known)] + \
                [pre + k_ for k_ in sorted(known) for pre in ("bogus__", "no__such__", "_", " ")] + \
                [k_ + suf for k_ in sorted(known) for suf in ("__bogus", " ")]
            for bad in spellings + attr_names:
                if bad in known:
                    continue
                snap = dict(est.get_params())
                inst0 = dict(vars(est))  # the instance dictionary is where an accepted name would land
                try:
                    est.set_params(**{bad: 1.0})
                    fail("unknown-param-accepted", f"set_params({bad}=1.0) accepted ({'after transform' if used else 'fresh estimator'})")
                except (ModelConstructionError, ValueError, TypeError):
                    pass
                except Exception as e:
                    fail("unknown-param-wrong-error", f"set_params({bad}=1.0) raised {type(e).__name__}")
                inst1 = vars(est)
                changed = [a for a in set(inst0) | set(inst1) if (a in inst0) != (a in inst1) or (a in inst0 and inst0[a] is not inst1[a])]
                if changed:
                    fail("unknown-param-side-effect", f"set_params({bad}=1.0) changed the estimator's attributes {sorted(changed)}")
                    for a in changed:  # put things back so the remaining probes see a working object
                        if a in inst0:
                            inst1[a] = inst0[a]
                        else:
                            del inst1[a]
                n += 1
                if same_params(snap, est.get_params(), ""):
                    fail("unknown-param-side-effect", f"refused set_params({bad}) still changed parameters")
    return {"n": n, "fails": fails, "sigs": [f"{tag}:{i}" for i in range(n)], "outcomes": ["params-checked"],
            "sample": {"kind": "params", "estimator": tag, "set_params_combinations": len(combos)}}


def eval_fit(case):
    from formak.exceptions import MinimizationFailure
    from fv.props.c16 import alphabet
    d = noise_variant(models()[case["model"]], case["noise"])
    tag = f"{d['name']} noise{case['noise']} matrix{case['matrix']}"
    est = make(d, FIT_CONFIGS[case["config"]] if case.get("config") is not None else None)
    if case.get("config") is not None:
        tag += f" config{case['config']}"
    width = len(d["control"]) + sum(len(rs) for _, rs in d["sensors"])
    alpha = alphabet(width, case["seed"] + case["matrix"])
    rows = [[0, 1, 2, 1, 0], [2, 0, 1, 1, 2, 0], [1, 1, 0, 2]][case["matrix"] % 3]
    X = np.array([[v * (1.0 if case["matrix"] % 2 == 0 else 0.5) for v in alpha[i]] for i in rows], dtype=float)
    before = dict(est.get_params())
    before_noise = (copy.deepcopy(before["process_noise"]), copy.deepcopy(before["sensor_noises"]))
    fails = []

    def fail(key, what):
        fails.append({"key": key, "what": f"{tag}: {what}"})

    outcome = None
    try:
        ret = est.fit(X)
        outcome = "fitted"
    except MinimizationFailure:
        outcome = "minimization-failure"
    except Exception as e:
        outcome = "other-exception"
        fail(f"fit-raises:{type(e).__name__}", f"fit raised {type(e).__name__}: {str(e)[:200]} (neither success nor MinimizationFailure)")
    if outcome == "fitted":
        after = ret.get_params()
        if ret is not est:
            fail("fit-return", "fit did not return the estimator")
        if model_fields(after["symbolic_model"]) != model_fields(before["symbolic_model"]):
            fail("fit-changed-model", "symbolic model changed by fit")
        for k in ("sensor_models", "calibration_map", "config"):
            if after[k] != before[k]:
                fail(f"fit-changed-{k}", f"{k} changed by fit")
        pn = after["process_noise"]
        if set(map(str, pn.keys())) != set(map(str, before_noise[0].keys())):
            fail("fit-process-noise-keys", f"fitted process noise names {sorted(map(str, pn))}, original {sorted(map(str, before_noise[0]))}")
        elif any(not np.isfinite(v) or not v > 0 for v in pn.values()):
            fail("fit-process-noise-values", f"fitted process noise {pn}")
        sn = after["sensor_noises"]
        if set(sn.keys()) != set(before_noise[1].keys()):
            fail("fit-sensor-noise-keys", f"fitted sensor noise sensors {sorted(sn)}")
        else:
            for key in sn:
                if set(map(str, sn[key].keys())) != set(map(str, before_noise[1][key].keys())):
                    fail("fit-reading-noise-keys", f"sensor {key}: fitted readings {sorted(map(str, sn[key]))}")
                elif any(not np.isfinite(v) for v in sn[key].values()):
                    fail("fit-reading-noise-values", f"sensor {key}: {sn[key]}")
    elif outcome == "minimization-failure":
        after = est.get_params()
        if model_fields(after["symbolic_model"]) != model_fields(before["symbolic_model"]) or after["config"] != before["config"]:
            fail("failure-changed-model", "model/config changed by a failed fit")
    return {"n": 1, "fails": fails, "sig": tag, "outcomes": ["fit:" + outcome, "fit-ran"],
            "sample": {"kind": "fit", "estimator": tag, "rows": len(rows), "outcome": outcome,
                       "fitted_process_noise": {str(k): float(v) for k, v in est.get_params()["process_noise"].items()}}}


def eval_case(case):
    return eval_params(case) if case["kind"] == "params" else eval_fit(case)


REQUIRED_OUTCOMES = ["params-checked", "fit-ran"]
