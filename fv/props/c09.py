"""C09 - valid covariance in, valid covariance out, along any update history (explicit-state BFS on the real filter)."""
from __future__ import annotations

import numpy as np

from fv import explore, pyimpl, space
from fv.claims import CLAIMS
from fv.ekfref import RefEKF, cov_menu
from fv.refmodel import ref_eval

ID = "C09"
CASE_TIMEOUT_S = 3600  # per-case alarm (seconds); a case that does not finish is reported as a violation
LEVEL = "model_checking"
TECHNIQUE = CLAIMS[ID]["technique"]
RULE = (
    "explicit-state BFS over (state vector, covariance) of a real compiled EKF; events = predict(dt in {0.1, 0.05, 0.01, "
    "0.07, -0.1}) x 2 control values and update(each sensor, reading in {predicted value + 0.25, predicted value + 5}) with "
    "innovation filtering disabled so every event is applied; initial covariances {I, 1024 I, diag(2^-10..2^10), dense SPD, "
    "rank-deficient PSD}; models = the project's mass/z/v/a rocket, duplicated-state and constant-state (singular process "
    "Jacobian), a nonlinear BIND model with calibration, a 3-state/2-sensor model; depth 4 (quick) / 5 (thorough), states "
    "canonicalised by rounding to 10 significant digits (over-fine: merges only numerically identical estimates); plus "
    "long histories: every periodic event pattern of period 1 and 2 over the same alphabet run for 48 (quick) / 160 "
    "(thorough) steps from every initial covariance. "
    "Invariant on every transition: no exception, covariance symmetric and lambda_min >= 0 up to 1e-9 x the largest covariance magnitude met along the history (rounding of G P G^T and P - K H P is relative to the operands, and is inherited by later, smaller covariances). distinct = "
    "distinct canonical states; non-trivial = all states beyond the initial ones."
    " Further: sing-copies (three exactly proportional states, precise sensor) from priors that know one state 1e6 / 3e5 times worse than the others; chain5 (five-state integrator chain, four sensors of 1-2 readings with noise 1e-5..1e-2) from 2^30 I and 2^34 I, BFS depth 3 plus whole-tick patterns (one prediction, then every sensor, in every rotation) repeated 24 / 96 times."
    " sing-copies-inexact (coefficients 7/10 and 13/10: two null directions, both rounded) from mixed priors 1e6 / 3e5 / 1e7."
)
ASSUMPTIONS = [
    "bounded histories: states with |x| > 64 or |P| entries above 1e6 or non-finite are not expanded (counted as pruned)",
    "dt within the configured maximum step (0.1); noises positive; noise ratio <= 2^20",
    "canonical form = 10 significant digits of (x, P): merged states have numerically identical futures to 1e-10",
]
DTS = [0.1, 0.05, 0.01, 0.07, -0.1]


def models():
    out = list(space.family_sing())
    out.append(space.bind_def(2, 1, 1, order=1, sensors_shape=(1, 2)))
    out.append(space.bind_def(3, 2, 0, order=2, sensors_shape=(2, 1)))
    from fv.props.c12 import gentle_def
    out.append(gentle_def(1, 1, 1, (2, 1), 0))  # bounded pendulum-like dynamics: long histories stay O(1)
    out.append(lin_full())
    out.append(sing_copies())
    out.append(sing_copies(((7, 10), (13, 10)), "sing-copies-inexact"))  # coefficients that are not exact in binary: two null directions, both rounded
    out.append(chain5())
    return out


def chain5():
    """five-state integrator chain observed by a two-reading and a one-reading sensor (readings far fewer than states): under a
    diffuse prior each update removes uncertainty in a low-dimensional subspace only"""
    S, DT, add, mul, C = space.S, space.DT, space.add, space.mul, space.C
    xs = [S(f"x{i}") for i in range(1, 6)]
    model = [[f"x{i + 1}", add(xs[i], mul(DT, xs[i + 1]))] for i in range(4)] + [["x5", add(mul(C(7, 8), xs[4]), mul(DT, S("u")))]]
    sensors = [["sa", [["r1", add(xs[2], xs[4])], ["r2", xs[2]]]], ["sb", [["r", xs[1]]]], ["sc", [["r1", mul(C(2), xs[1])], ["r2", xs[0]]]],
               ["sd", [["r", xs[2]]]]]
    # precise sensors: cond(S) ~ 1e14 under the diffuse prior
    snoise = [["sd", [["r", 1e-2]]], ["sb", [["r", 1e-2]]], ["sa", [["r2", 1e-5], ["r1", 1e-5]]], ["sc", [["r1", 1e-3], ["r2", 1e-3]]]]
    return space.mkdef("chain5", [f"x{i}" for i in (3, 1, 5, 2, 4)], ["u"], [], model, [], [["u", 0.25]], sensors, snoise)


def sing_copies(coeffs=((2, 1), (3, 1)), name="sing-copies"):
    """three states that are exact multiples of each other after one prediction (rank-1 covariance), a precise sensor on one of
    them: the update collapses a large prior by many orders of magnitude in a singular direction"""
    S, add, mul, C = space.S, space.add, space.mul, space.C
    t = S("T")
    model = [["T", t], ["b1", mul(C(*coeffs[0]), t)], ["b2", mul(C(*coeffs[1]), t)]]
    sensors = [["t", [["r", t]]], ["s", [["r", add(S("b1"), S("b2"))]]]]
    snoise = [["s", [["r", 0.5]]], ["t", [["r", 1e-3]]]]
    return space.mkdef(name, ["b2", "T", "b1"], [], [], model, [], [], sensors, snoise)


def lin_full():
    """linear, stable, and fully observed by one two-reading sensor: an update collapses a diffuse prior in every direction"""
    S, DT, add, sub, mul, C = space.S, space.DT, space.add, space.sub, space.mul, space.C
    x, y, u = S("x"), S("y"), S("u")
    model = [["x", add(add(x, mul(DT, y)), mul(mul(C(1, 4), DT), u))], ["y", add(mul(C(7, 8), y), mul(DT, u))]]
    sensors = [["full", [["b", sub(y, mul(C(1, 4), x))], ["a", add(x, mul(C(1, 2), y))]]], ["part", [["p", x]]]]
    snoise = [["part", [["p", 0.5]]], ["full", [["a", 0.25], ["b", 1.0]]]]
    return space.mkdef("lin-full", ["y", "x"], ["u"], [], model, [], [["u", 0.25]], sensors, snoise)


def p0_menu(n):
    out = [p for p in cov_menu(n, "quick")]
    out.append(("1024I", [[1024.0 if i == j else 0.0 for j in range(n)] for i in range(n)]))
    sp = [2.0 ** -10, 1.0, 2.0 ** 10, 4.0, 0.5, 16.0]
    out.append(("spread", [[sp[i] if i == j else 0.0 for j in range(n)] for i in range(n)]))
    return out


def x0_of(d):
    st = sorted(d["state"])
    if d["name"] == "sing-rocket":
        return {"m": 2.0, "z": 0.0, "v": 0.5, "a": 0.25}
    return next(space.some_points(st, 1))


def controls_of(d):
    ct = sorted(d["control"])
    if d["name"] == "sing-rocket":
        return [{"thrust": 1.0}, {"thrust": 20.0}]
    return [{c: 0.5 + i for i, c in enumerate(ct)}, {c: -1.25 * (i + 1) for i, c in enumerate(ct)}]


def cases(tier, seed):
    depth = 4 if tier == "quick" else 5
    for d in models():
        if d["name"] == "chain5":
            continue  # five states, four sensors: explored from the diffuse priors and by the long tick patterns below
        for pname, P in p0_menu(len(d["state"])):
            yield {"def": d, "P0": P, "P0name": pname, "depth": depth, "seed": seed}
    # a diffuse prior (2^34 I, the usual way to say "unknown") on the linear models: nothing may be refused
    for d in models():
        if d["name"] in ("sing-rocket", "sing-dup", "sing-const", "lin-full", "chain5"):
            n_ = len(d["state"])
            for e_ in ((34, 30) if d["name"] == "chain5" else (34,)):
                P0_ = [[2.0 ** e_ if i == j else 0.0 for j in range(n_)] for i in range(n_)]
                yield {"def": d, "P0": P0_, "P0name": f"2^{e_}*I", "depth": depth if d["name"] != "chain5" else 3, "seed": seed, "pbound": 2.0 ** 60}
                # whole ticks: one prediction followed by EVERY sensor (in declaration order, reversed, rotated), repeated
                yield {"def": d, "P0": P0_, "P0name": f"2^{e_}*I", "long": 24 if tier == "quick" else 96, "seed": seed, "pbound": 2.0 ** 60,
                       "ticks": True}
    # a prior that knows one state far worse than the others (1e6 against 1) on the singular-Jacobian models: the first precise
    # reading collapses it by six orders of magnitude along an exactly correlated direction
    for d in models():
        if d["name"].startswith("sing-"):
            n_ = len(d["state"])
            for hot in range(min(n_, 2)):
                for big in ((1e6, 3e5, 1e7) if "copies" in d["name"] or tier != "quick" else (1e6,)):  # decimal magnitudes on purpose: with powers of two every product here is exact and nothing rounds
                    yield {"def": d, "P0": [[(big if i == hot else 1.0) if i == j else 0.0 for j in range(n_)] for i in range(n_)],
                           "P0name": f"mixed-{big:g}@{hot}", "depth": depth, "seed": seed, "pbound": 2.0 ** 60}
    # long histories: EVERY periodic event pattern of period 1 and 2 over the same alphabet, run for many steps
    for d in models():
        for pname, P in p0_menu(len(d["state"])):
            yield {"def": d, "P0": P, "P0name": pname, "long": 48 if tier == "quick" else 160, "seed": seed}


def _events(d):
    evs = []
    for dt in DTS:
        for ci, _ in enumerate(controls_of(d)):
            evs.append(["predict", dt, ci])
    for key, _ in d["sensors"]:
        for off in (0.25, 5.0):
            evs.append(["update", key, off])
    return evs


def eval_case(case):
    d = case["def"]
    ekf = pyimpl.py_ekf(d, {"innovation_filtering": None})
    ref = RefEKF(d)
    st = ref.st
    ctrls = controls_of(d)
    evs = _events(d)
    x0 = x0_of(d)
    # third component: running maximum of |P| along the history - rounding errors of G P G^T and P - K H P are
    # relative to the largest magnitude that took part in them, and are inherited by later, smaller covariances
    s0 = (tuple(float(x0[s]) for s in st), tuple(tuple(r) for r in case["P0"]),
          max(1.0, max(abs(v) for r in case["P0"] for v in r)))

    def mk(s):
        x, P = s[0], s[1]
        return (ekf.State.from_data(np.array(x, dtype=float).reshape((-1, 1))),
                ekf.Covariance.from_data(np.array(P, dtype=float)))

    def step(s, ev):
        state, cov = mk(s)
        if ev[0] == "predict":
            control = ekf.Control(**ctrls[ev[2]])
            out = ekf.process_model(ev[1], state, cov, control)
        else:
            key = ev[1]
            pred = ekf.sensor_models[key].model(state)
            reading = ekf.sensor_models[key].Reading.from_data(pred.data + ev[2])
            out = ekf.sensor_model(state, cov, sensor_key=key, sensor_reading=reading)
        x2 = tuple(float(v) for v in out.state.data.ravel())
        P2 = tuple(tuple(float(v) for v in r) for r in out.covariance.data)
        fin = [abs(v) for r in P2 for v in r if v == v and abs(v) != float("inf")]
        return (x2, P2, max([s[2]] + fin)), None

    def check(s, ev, s2, info, hist):
        if s2 is None:
            e = info
            return [(f"refused:{type(e).__name__}:{ev[0]}@{d['name']}",
                     f"{d['name']} P0={case['P0name']}: {ev} raised {type(e).__name__}: {str(e)[:200]} after {hist[1:-1]}")]
        P_in = np.array(s[1])
        P = np.array(s2[1])
        if not np.all(np.isfinite(P)):
            if np.all(np.isfinite(np.array(s2[0]))) and np.abs(P_in).max() < 1e6:
                return [(f"non-finite-covariance:{ev[0]}@{d['name']}", f"{d['name']}: {ev} produced a non-finite covariance after {hist[1:-1]}")]
            return []
        scale = s2[2]
        out = []
        if np.abs(P - P.T).max() > 1e-9 * scale:
            out.append((f"asymmetric:{ev[0]}@{d['name']}", f"{d['name']} P0={case['P0name']}: covariance asymmetric by "
                        f"{np.abs(P - P.T).max()} (scale {scale}) after {hist[1:]}"))
        else:
            w = np.linalg.eigvalsh((P + P.T) / 2)
            if w.min() < -1e-9 * scale:
                out.append((f"negative-eigenvalue:{ev[0]}@{d['name']}", f"{d['name']} P0={case['P0name']}: lambda_min = "
                            f"{w.min()} (scale {scale}) after {hist[1:]}"))
        return out

    def canon(s):
        return (tuple(float(f"{v:.10g}") for v in s[0]), tuple(float(f"{v:.10g}") for r in s[1] for v in r),
                float(f"{s[2]:.2g}"))

    def expandable(s):
        a = np.array(s[0])
        P = np.array(s[1])
        # "bounded states, covariances and noises": the models are polynomial/transcendental in the state, so Jacobian
        # entries grow with |x|; beyond |x| = 64 the products H P H^T lose more digits to cancellation than any fixed
        # tolerance allows for, which is outside the property's quantifier
        return bool(np.all(np.isfinite(a)) and np.all(np.isfinite(P)) and np.abs(a).max() <= case.get("xbound", 64.0)
                    and np.abs(P).max() < case.get("pbound", 1e6))

    if "long" in case and "history" not in case:
        n = 0
        fails = []
        pats = [[e] for e in evs] + [[a, b] for a in evs for b in evs if a != b]
        if case.get("ticks"):
            keys = [k_ for k_, _ in d["sensors"]]
            orders = [keys, list(reversed(keys))] + [keys[i_:] + keys[:i_] for i_ in range(1, len(keys))]
            pats = [[["predict", dt_, 0]] + [["update", k_, off_] for k_ in o_] for dt_ in (0.1, 0.05, -0.1) for o_ in orders for off_ in (0.25,)]
        deepest = 0
        for pat in pats:
            s = s0
            hist = [("init", case["P0name"])]
            for i in range(case["long"]):
                ev = pat[i % len(pat)]
                hist.append(ev)
                n += 1
                try:
                    s2, _ = step(s, ev)
                except Exception as e:
                    bad = check(s, ev, None, e, hist)
                    s2 = None
                else:
                    bad = check(s, ev, s2, None, hist)
                if bad:
                    k, w = bad[0]
                    if not any(f["key"] == k for f in fails):
                        fails.append({"key": k, "what": f"periodic pattern {pat} x{i + 1}: " + w[:300],
                                      "replay_case": dict(case, history=[pat[j % len(pat)] for j in range(i + 1)])})
                    break
                s = s2
                deepest = max(deepest, i + 1)
                if not expandable(s):
                    break
            if len(fails) >= 3:
                break
        return {"n": n, "fails": fails, "sigs": [], "distinct_count": n, "nontrivial": False,
                "counters": {"transitions": n, "traces": n, "long_patterns": len(pats)},
                "outcomes": ["long-histories", f"long{deepest}"],
                "sample": {"model": d["name"], "P0": case["P0name"], "long_patterns": len(pats), "steps_each": case["long"],
                           "example_pattern": pats[len(pats) // 2]}}

    if "history" in case:  # replay of one recorded history
        s = s0
        fails = []
        hist = [("init", case["P0name"])]
        for ev in case["history"]:
            hist.append(ev)
            try:
                s2, _ = step(s, ev)
            except Exception as e:
                fails += [{"key": k, "what": w} for k, w in check(s, ev, None, e, hist)]
                break
            fails += [{"key": k, "what": w} for k, w in check(s, ev, s2, None, hist)]
            s = s2
        return {"n": len(case["history"]), "fails": fails}

    stt = explore.bfs([(s0, case["P0name"])], lambda s: evs, step, check, canon, case["depth"], expandable)
    fails = []
    for f in stt.fails:
        fails.append({"key": f["key"], "what": f["what"], "detail": {"history": f["history"][1:]},
                      "replay_case": dict(case, history=f["history"][1:])})
    return {"n": stt.transitions, "fails": fails, "sigs": [f"{d['name']}:{case['P0name']}:{i}" for i in range(stt.states - 1)],
            "counters": {"states": stt.states, "transitions": stt.transitions, "pruned_unbounded": stt.pruned,
                         "dedup_hits": stt.dedup_hits, "traces": stt.transitions},
            "outcomes": [f"depth{stt.max_depth}"],
            "sample": {"model": d["name"], "P0": case["P0name"], "trace": stt.sample_traces[:1], "states": stt.states}}


def finalize(agg, tier):
    c = agg["counters"]
    return {"states": c.get("states", 0), "transitions": c.get("transitions", 0),
            "traces_validated_against_impl": c.get("transitions", 0),
            "explanation": "exploration runs on the implementation itself: every transition is a real process_model / "
                           "sensor_model call, so every explored trace is an implementation trace",
            "max_depth": 4 if tier == "quick" else 5, "long_history_steps": 48 if tier == "quick" else 160}


REQUIRED_OUTCOMES = ["long-histories"]
