"""C10, C++ runtime: the real ManagedFilter.h compiled against recording Impls."""
from __future__ import annotations

from fv import cppharness, managed_cpp


def cases(tier, seed):
    from fv.props import c10
    # all four control x calibration instantiations: the header has one separately written stepping branch per combination
    hs = c10.HS_QUICK if tier == "quick" else c10.HS_ALL
    t0s = [0.0, 1000.0] if tier == "quick" else c10.T0_ALL
    for combo in [0, 1, 2, 3]:
        yield {"runtime": "cpp", "combo": combo, "hs": hs if (tier != "quick" or combo in (0, 3)) else hs[:2],
               "t0s": t0s if (tier != "quick" or combo in (0, 3)) else t0s[:1], "full_triples": tier == "thorough",
               "long": tier != "quick" or combo in (0, 3)}


def eval_case(case):
    from fv.props import c10
    combo = case["combo"]
    has_ctl, has_cal = managed_cpp.COMBOS[combo]
    fails, outcomes, sigs = [], set(), []
    n = 0
    with cppharness.Scratch() as sc:
        exe, err = managed_cpp.build(sc.dir, combo)
        if exe is None:
            return {"n": 1, "fails": [{"key": f"does-not-compile:cpp:combo{combo}",
                                       "what": f"ManagedFilter<Impl> with control={has_ctl} calibration={has_cal} does not compile: "
                                               f"{cppharness.first_error(err)}"}], "outcomes": ["compile-failed"]}
        jobs = []
        if "tick" in case:
            jobs.append((case["h"], [tuple(case["tick"])]))
        else:
            for h in case["hs"]:
                for t0 in case["t0s"]:
                    g = c10.grid(h, t0)
                    seq = managed_cpp.de_bruijn_pairs(len(g))
                    seq = seq + seq[:2]
                    # chain of ticks along an Eulerian circuit of the complete digraph on the grid: every ordered pair
                    # (from, to) occurs once as a held-time move and once as an output move
                    ticks = [("chain", g[seq[0]])] + [(g[seq[i + 1]], g[seq[i + 2]]) for i in range(len(seq) - 2)]
                    jobs.append((h, ticks))
                    if case.get("full_triples") and t0 == case["t0s"][0]:
                        jobs.append((h, [(f, a, b) for f in g for a in g for b in g]))
            # long moves (see c10.cases): thousands of whole steps of a maximum step that is not a whole number of nanoseconds
            if case.get("long"):
                for h in c10.LONG_HS:
                    jobs.append((h, [(t0, t0 + sgn * N * h, t0) for t0 in c10.T0_QUICK for N in c10.LONG_NS[:2] for sgn in (1.0, -1.0)]))
        for h, ticks in jobs:
            lines = []
            plan = []  # (held, a, b)
            held = None
            for t in ticks:
                if t[0] == "chain":
                    held = t[1]
                    lines.append(f"NEW {held!r} 7")
                    continue
                if len(t) == 3:
                    held, a, b = t
                    lines.append(f"NEW {held!r} 7")
                else:
                    a, b = t
                lines.append(f"TICK {b!r} 3 1 {a!r} 0 1")
                plan.append((held, a, b))
                held = a
            rc, out, err = managed_cpp.run(exe, combo, h, lines)
            if rc != 0:
                fails.append({"key": f"driver-exit:cpp:combo{combo}", "what": f"recording driver exited {rc}: {err[:200]}"})
                break
            recs = [r for r in managed_cpp.split_ticks(out) if r[0] == "TICK"]
            if len(recs) != len(plan):
                fails.append({"key": f"driver-output:cpp:combo{combo}", "what": f"{len(recs)} tick records for {len(plan)} ticks"})
                break
            for (held, a, b), (_, log, ret) in zip(plan, recs):
                n += 1
                si = [i for i, e in enumerate(log) if e[0] == "S"]
                if len(si) != 1:
                    fails.append({"key": f"sensor-calls:cpp", "what": f"cpp h={h}: {len(si)} sensor calls for one reading in tick {held, a, b}"})
                    continue
                s1 = [e[2] for e in log[:si[0]]]
                s2 = [e[2] for e in log[si[0] + 1:]]
                for k, w in c10.check_move(held, a, s1, h) + c10.check_move(a, b, s2, h):
                    fails.append({"key": f"{k}:cpp", "what": f"cpp combo{combo} h={h}: {w}",
                                  "replay_case": {"runtime": "cpp", "combo": combo, "h": h, "tick": [held, a, b]}})
                for f_, t_, s_ in ((held, a, s1), (a, b, s2)):
                    outcomes.update(c10.classify(f_, t_, s_, h))
                    if f_ != t_:
                        sigs.append(f"cpp{combo}:{h}:{f_!r}:{t_!r}")
                if len(fails) > 5:
                    break
            if len(fails) > 5:
                break
    seen, uniq = set(), []
    for f in fails:
        if f["key"] not in seen:
            seen.add(f["key"])
            uniq.append(f)
    return {"n": n, "fails": uniq, "sigs": list(set(sigs)),
            "counters": {"transitions": n, "moves_checked": 2 * n, "cpp_ticks": n},
            "outcomes": [f"cpp:{o}" for o in outcomes] + [f"cpp-combo{combo}"],
            "sample": {"runtime": "cpp", "combo": {"control": has_ctl, "calibration": has_cal}, "ticks": n}}
