"""C08 - common-subexpression elimination never changes a result; temporaries are assigned once, before use."""
from __future__ import annotations

import re

import numpy as np

from fv import cppharness, pyimpl, space
from fv import refmodel as R
from fv.claims import CLAIMS
from fv.ekfref import RefEKF

ID = "C08"
LEVEL = "exploration"
TECHNIQUE = CLAIMS[ID]["technique"]
RULE = (
    "programs = the CSE family (4 shared cores x all 2- and 3-subsets of 5 wrappers assigned to 2-3 outputs, temporaries "
    "nested 3 deep, identical outputs, an output that is itself a shared temporary, constant and identity outputs) with a "
    "nonlinear two-reading sensor sharing sub-expressions. Python: model, process/control/sensor Jacobians, process_model "
    "and sensor_model evaluated with CSE on and off on the full dyadic grid; on == off to 1e-12 and both == reference. "
    "C++: a subset generated with CSE on and off, compiled and run at 8 points (on == off == reference), plus a def-use "
    "pass over every generated function body (each local declared once, before its first use, right-hand side mentions "
    "only parameters/accessors, literals, <cmath> functions and earlier locals). distinct = distinct programs; "
    "non-trivial = sympy.cse extracts at least one temporary for the program (counted from the generated C++ / the "
    "compiled Python block). Also the programs renamed so that inputs are called _t0.._t4, and a block-size sweep (blocks of "
    "1..64 statements, rows with more temporaries than statements)."
    " Model values of three programs whose intermediates overflow to inf (1/(1+exp(896))) are compared on / off / reference at points that reach the overflow."
    " Saturation constructs (Piecewise with comparisons) shared by several outputs, so that CSE hoists them into temporaries (Python and C++; multi-line C statements are joined before the def-use pass)."
    " For definitions with calibration the C++ side is evaluated with two calibrations in one process (the calibration is read per point); programs whose temporaries depend only on the control / the calibration / dt are in the C++ subset of both tiers."
)
ASSUMPTIONS = ["bounds as C01/C02; Python temporaries are observed behaviourally (a temporary used before assignment raises)"]
REL = 1e-9
CMATH = {"sin", "cos", "tan", "atan", "atan2", "tanh", "exp", "log", "sqrt", "pow", "fabs", "M_PI", "M_E", "asin", "acos",
         "sinh", "cosh", "asinh", "atanh", "acosh", "double", "L"}


TEMP_NAMED = ("cse-nest3", "cse-dtshare", "cse-temp-is-output", "cse-identity-outs", "cse-const-outs")


def with_sensors(d):
    x, y, c, u = space.S("x"), space.S("y"), space.S("c"), space.S("u")
    s0 = space.add(x, y)
    s1 = space.fn("sin", s0)
    d = dict(d)
    d["sensors"] = [["mix", [["b", space.mul(s1, space.add(s0, c))], ["a", space.add(s1, space.pw(s0, 2))]]],
                    ["pos", [["px", space.mul(space.fn("exp", space.mul(space.C(1, 4), x)), c)]]]]
    d["snoise"] = [["mix", [["a", 0.5], ["b", 2.0]]], ["pos", [["px", 0.25]]]]
    return d


def cases(tier, seed):
    fam = [with_sensors(d) for d in space.family_cse(tier)]
    # the same programs with inputs that are NAMED like CSE temporaries (_t0, _t1, ...): an accepted model whose symbol names
    # coincide with the names the generator invents must still compile and give the same values with CSE on and off
    tn = {"x": "_t0", "y": "_t1", "u": "_t2", "c": "_t3", "z": "_t4"}
    named = [space.rename_def(d, tn) for d in fam if d["name"] in TEMP_NAMED]
    # block-size sweep: blocks of 1..64 statements (n, n*n, n*k, m*n), rows with more temporaries than statements
    sizes = space.family_sizes(tier)
    # saturation constructs (Piecewise with comparisons), alone and shared between outputs
    pw = [with_sensors(d) for d in space.family_piecewise()]
    fam = fam + named + sizes + pw
    for d in fam:
        yield {"kind": "py", "def": d, "seed": seed, "per_symbol": 2 if tier == "quick" else 3}
    # model VALUES only: intermediates that overflow (exp(896) = inf) while the value stays defined - on and off must agree
    for d in space.family_extreme():
        yield {"kind": "py-model", "def": d, "seed": seed, "per_symbol": 2 if tier == "quick" else 3}
    sub = (fam[::3] + [d for d in fam if ("manytemps" in d["name"] or d in named[:2] or d in sizes or d in pw or "ctl-only" in d["name"] or "dt-only" in d["name"]) and d not in fam[::3]]) if tier == "quick" else fam
    for d in sub:
        yield {"kind": "cpp", "def": d, "seed": seed}


def count_temps(block):
    return len(getattr(block, "_prefix", []))


def eval_py(case):
    d = case["def"]
    ref = RefEKF(d)
    fails = []

    def fail(key, what):
        if not any(f["key"].startswith(key) for f in fails):
            fails.append({"key": f"{key}:py", "what": f"{d['name']}: {what}"})

    try:
        on = pyimpl.py_ekf(d, {"cse": True, "innovation_filtering": None})
        off = pyimpl.py_ekf(d, {"cse": False, "innovation_filtering": None})
    except Exception as e:
        return {"n": 1, "fails": [{"key": f"compile-refused:{type(e).__name__}:py", "what": f"{d['name']}: {e!r}"[:300]}]}
    ntemps = count_temps(on._state_model._impl) + count_temps(on._impl_process_jacobian) + sum(
        count_temps(b) for b in on._impl_sensor_jacobians.values())
    n = skipped = 0
    ns = len(ref.st)
    P = np.array([[(1.0 + 0.5 * i) if i == j else 0.125 for j in range(ns)] for i in range(ns)])
    poly = all(space.is_polynomial(a_) for _, a_ in d["model"])
    for env in space.grid_points(ref.st + ref.ct, case["per_symbol"], case["seed"], (0.125, -0.25), large=poly):
        if max(abs(v_) for v_ in env.values()) > 1e6:
            # large, nearly equal operands: only the polynomial state model is compared (its own sensors are transcendental),
            # with a tolerance relative to the largest intermediate of the expression as written
            from fv.refmodel import ref_eval_mag
            full = ref.env(env)
            try:
                on_s = on._state_model.model(env["dt"], on.State(**{s_: env[s_] for s_ in ref.st}), on.Control(**{s_: env[s_] for s_ in ref.ct}))
                off_s = off._state_model.model(env["dt"], off.State(**{s_: env[s_] for s_ in ref.st}), off.Control(**{s_: env[s_] for s_ in ref.ct}))
            except Exception as e:
                fail(f"raises:{type(e).__name__}", f"{type(e).__name__}: {str(e)[:200]} at {env}")
                break
            n += 1
            for i_, s_ in enumerate(ref.st):
                v_, m_ = ref_eval_mag(ref.f[s_], full)
                for lab_, got_ in (("on", on_s.data[i_, 0]), ("off", off_s.data[i_, 0])):
                    if not pyimpl.close(got_, v_, REL, float(m_)):
                        fail("value-mismatch-large-operands", f"model '{s_}' cse={lab_}: {got_!r}, expected {float(v_)!r} (largest intermediate "
                             f"{float(m_):.3g}) at {env}")
            continue
        full = ref.env(env)
        try:
            fx, G, V = ref.fx(full), ref.G(full), ref.V(full)
            Hs = {k: (ref.hx(k, full), ref.H(k, full)) for k in ref.h}
        except R.Singular:
            skipped += 1
            continue
        res = {}
        for name, ekf in (("on", on), ("off", off)):
            try:
                state = ekf.State(**{s: env[s] for s in ref.st})
                control = ekf.Control(**{s: env[s] for s in ref.ct})
                cov = ekf.Covariance.from_data(P.copy())
                r = {"model": ekf._state_model.model(env["dt"], state, control).data.ravel(),
                     "G": ekf.process_jacobian(env["dt"], state, control).ravel(),
                     "V": ekf.control_jacobian(env["dt"], state, control).ravel()}
                pm = ekf.process_model(env["dt"], state, cov, control)
                r["px"], r["pP"] = pm.state.data.ravel(), pm.covariance.data.ravel()
                for k in ref.h:
                    r[f"H:{k}"] = ekf.sensor_jacobian(k, state).ravel()
                    r[f"h:{k}"] = ekf.sensor_models[k].model(state).data.ravel()
                    z = ekf.sensor_models[k].Reading.from_data(r[f"h:{k}"].reshape((-1, 1)) + 0.25)
                    sm = ekf.sensor_model(state, cov, sensor_key=k, sensor_reading=z)
                    r[f"ux:{k}"], r[f"uP:{k}"] = sm.state.data.ravel(), sm.covariance.data.ravel()
                res[name] = r
            except Exception as e:
                fail(f"raises:{type(e).__name__}", f"cse={name}: {type(e).__name__}: {str(e)[:200]} at {env}")
                break
        if len(res) < 2:
            break
        n += 1
        for key in res["on"]:
            a, b = res["on"][key], res["off"][key]
            scale = max(1.0, float(np.abs(b).max()) if b.size else 1.0)
            if a.shape != b.shape or (a.size and float(np.abs(a - b).max()) > 1e-12 * scale):
                fail("cse-changes-result", f"{key}: CSE on {a.tolist()} != off {b.tolist()} at {env}")
        refs = {"model": fx, "G": [v for r_ in G for v in r_], "V": [v for r_ in V for v in r_]}
        for k, (hx, H) in Hs.items():
            refs[f"h:{k}"] = hx
            refs[f"H:{k}"] = [v for r_ in H for v in r_]
        for key, rv in refs.items():
            for name in ("on", "off"):
                got = res[name][key]
                if len(got) != len(rv) or any(not pyimpl.close(g, v, REL) for g, v in zip(got, rv)):
                    fail("value-mismatch", f"{key} cse={name}: {got.tolist()} expected {[float(v) for v in rv]} at {env}")
        if fails:
            break
    return {"n": n, "fails": fails, "nontrivial": ntemps > 0, "sig": "py:" + d["name"],
            "counters": {"points_skipped_singular": skipped, "python_temporaries": ntemps},
            "outcomes": ["py-evaluated"] + (["py-temporaries-extracted"] if ntemps else []) + (["py-nested-temporaries"] if ntemps >= 3 else []),
            "sample": {"kind": "py", "program": d["name"], "temporaries": ntemps, "points": n,
                       "model": {k: space.show(a) for k, a in d["model"]}}}


FUNC_RE = re.compile(r"^\s*(?:[\w:<>,\s\*&]+?)\s+([\w:]+)\(([^)]*)\)\s*(?:const)?\s*\{\s*$")
DECL_RE = re.compile(r"^\s*(?:static\s+)?(?:constexpr\s+)?(?:const\s+)?(?:double|float|bool|int|auto)\s+(?:const\s+)?(\w+)\s*=\s*(.*);\s*$")
ASSIGN_RE = re.compile(r"^\s*(\w+)\((\d+),\s*(\d+)\)\s*=\s*(.*);\s*$")
IDENT_RE = re.compile(r"[A-Za-z_][A-Za-z_0-9]*(?:\s*\.\s*[A-Za-z_][A-Za-z_0-9]*(?:\(\))?)*")


def def_use(source_text):
    """returns (violations, n_functions, n_temporaries) for every generated function body with scalar assignments"""
    bad = []
    nfun = ntemp = 0
    lines = source_text.splitlines()
    i = 0
    while i < len(lines):
        # function header may span several lines: collect from a line ending with '(' up to ') {' / ') const {'
        if re.search(r"[\w>:]\s+[\w:]+::(model|process_jacobian|control_jacobian|covariance|jacobian)\($", lines[i].rstrip()):
            fname = lines[i].strip()
            params = []
            i += 1
            while i < len(lines) and not re.match(r"^\s*\)\s*(const)?\s*\{", lines[i]):
                m = re.search(r"(\w+)\s*,?\s*$", lines[i].strip())
                if m:
                    params.append(m.group(1))
                i += 1
            i += 1
            declared = []
            used_before = set()
            nfun += 1
            while i < len(lines) and not re.match(r"^\s*return\b", lines[i]):
                line = lines[i]
                # a statement may span several lines (the C printer breaks conditional expressions): join up to the ';'
                if re.match(r"^\s*((?:static\s+)?(?:const\s+)?(?:double|float|bool|int|auto)\s+\w+|\w+\(\d+,\s*\d+\))\s*=", line) and not line.rstrip().endswith(";"):
                    j = i
                    while j + 1 < len(lines) and not lines[j].rstrip().endswith(";"):
                        j += 1
                    line = " ".join(x_.strip() for x_ in lines[i:j + 1])
                    line = "    " + line
                    i = j
                m = DECL_RE.match(line)
                a = ASSIGN_RE.match(line)
                rhs = None
                if m:
                    name, rhs = m.group(1), m.group(2)
                    if name in declared:
                        bad.append(f"{fname}: local '{name}' assigned more than once")
                    if name in used_before:
                        bad.append(f"{fname}: local '{name}' used before its assignment")
                    if name.startswith("_t"):
                        ntemp += 1
                elif a:
                    rhs = a.group(4)
                    name = None
                if rhs is not None:
                    for tok in IDENT_RE.findall(rhs):
                        tok = tok.replace(" ", "")
                        base = tok.split(".")[0]
                        if base in params or tok in CMATH or base in CMATH or re.fullmatch(r"M_[A-Z0-9_]+", tok):
                            continue  # parameters, <cmath> functions and the M_* constants of <cmath> (M_PI, M_SQRT2, ...)
                        if base in declared:
                            continue
                        if re.fullmatch(r"[eE]\d*", tok):  # exponent of a float literal
                            continue
                        used_before.add(base)
                        bad.append(f"{fname}: right-hand side of '{line.strip()[:80]}' mentions '{tok}' which is not a "
                                   f"parameter, <cmath> function or earlier local")
                    if name:
                        declared.append(name)
                i += 1
        i += 1
    return bad, nfun, ntemp


def eval_cpp(case):
    d = case["def"]
    ref = RefEKF(d)
    from fv.props.c02 import points_for
    pts = points_for(d, case["seed"])
    percal = bool(d["calibration"])
    if percal:
        # the same generated functions evaluated, in ONE process, with the definition's calibration and then with another one
        # (calibration is an argument of the generated C++; nothing of it may be remembered between calls)
        cal0 = dict((k_, v_) for k_, v_ in d["calmap"])
        cal1 = {k_: v_ * -1.5 + 0.375 * (i_ + 1) for i_, (k_, v_) in enumerate(sorted(cal0.items()))}
        pts = [dict(p_, cal=cal0) for p_ in pts] + [dict(p_, cal=cal1) for p_ in pts[:4]] + [dict(p_, cal=cal0) for p_ in pts[:2]]
    fails = []
    runs = {}
    for cse in (True, False):
        res = cppharness.build_and_run_ekf(d, {"cse": cse, "innovation_filtering": None}, pts, cal_per_point=percal)
        if not res["ok"]:
            return {"n": 1, "fails": [{"key": f"{res['stage']}-failed:cpp", "what": f"{d['name']} cse={cse}: {res['error']}"}]}
        runs[cse] = res
    bad, nfun, ntemp = def_use(runs[True]["source_text"])
    bad_off, nfun_off, ntemp_off = def_use(runs[False]["source_text"])
    for b in (bad + bad_off)[:2]:
        fails.append({"key": "def-use:cpp", "what": f"{d['name']}: {b}"})
    if nfun < 4 + 3 * len(d["sensors"]):
        fails.append({"key": "def-use-parser:cpp", "what": f"{d['name']}: only {nfun} generated function bodies recognised"})
    n = 0
    for p in range(len(pts)):
        a, b = runs[True]["results"].get(p, {}), runs[False]["results"].get(p, {})
        if set(a) != set(b):
            fails.append({"key": "cse-changes-outputs:cpp", "what": f"{d['name']}: different sets of outputs with CSE on/off"})
            break
        for key in a:
            n += 1
            if not pyimpl.close(a[key], b[key], 1e-12, max(1.0, abs(b[key]))) and not (a[key] != a[key] and b[key] != b[key]):
                fails.append({"key": "cse-changes-result:cpp", "what": f"{d['name']}: {key} = {a[key]!r} with CSE on, {b[key]!r} "
                              f"off at {pts[p]['env']}"})
                break
        if fails:
            break
        full = ref.env(pts[p]["env"])
        if percal:
            full.update(pts[p]["cal"])
        try:
            fx = ref.fx(full)
        except R.Singular:
            continue
        for i, s in enumerate(ref.st):
            if not pyimpl.close(a[("model", s)], fx[i], REL):
                fails.append({"key": "value-mismatch:cpp", "what": f"{d['name']}: model {s} = {a[('model', s)]!r}, expected {float(fx[i])!r}"})
    return {"n": n, "fails": fails[:3], "nontrivial": ntemp > 0, "sig": "cpp:" + d["name"],
            "counters": {"cpp_function_bodies_scanned": nfun + nfun_off, "cpp_temporaries": ntemp},
            "outcomes": ["cpp-evaluated"] + (["cpp-temporaries-extracted"] if ntemp else []) + (["cpp-no-temporaries-when-off"] if ntemp_off == 0 else ["cpp-temporaries-when-off"]),
            "sample": {"kind": "cpp", "program": d["name"], "temporaries": ntemp, "functions_scanned": nfun, "values_compared": n}}


def eval_py_model(case):
    from fv.refmodel import ref_eval, Singular
    d = case["def"]
    st, ca, ct = space.def_symbols(d)
    cal = dict((k, v) for k, v in d["calmap"])
    asts = dict((k, a) for k, a in d["model"])
    fails, n = [], 0
    try:
        on, off = pyimpl.py_model(d, {"cse": True}), pyimpl.py_model(d, {"cse": False})
    except Exception as e:
        return {"n": 1, "fails": [{"key": f"compile-refused:{type(e).__name__}:py-model", "what": f"{d['name']}: {e!r}"[:300]}]}
    ntemps = count_temps(on._impl)
    for env in space.grid_points(st + ct, case["per_symbol"], case["seed"], (0.125, -0.25), specials=[4.0, -3.5, 8.0] + space.special_values(list(asts.values()))):
        full = dict(env)
        full.update(cal)
        try:
            ref = [ref_eval(asts[s_], full) for s_ in st]
        except Singular:
            continue
        outs = {}
        for lab, m in (("on", on), ("off", off)):
            try:
                outs[lab] = m.model(env["dt"], m.State(**{s_: env[s_] for s_ in st}), m.Control(**{s_: env[s_] for s_ in ct})).data.ravel()
            except Exception as e:
                if not any(f["key"].startswith("raises") for f in fails):
                    fails.append({"key": f"raises:{type(e).__name__}:py-model", "what": f"{d['name']} cse={lab}: {type(e).__name__}: {str(e)[:150]} at {env}"})
        if len(outs) < 2:
            break
        n += 1
        for i, s_ in enumerate(st):
            a, b = float(outs["on"][i]), float(outs["off"][i])
            if not (pyimpl.close(a, b, 1e-12) and pyimpl.close(a, ref[i], REL)):
                if not any(f["key"].startswith("cse-changes-result") for f in fails):
                    fails.append({"key": "cse-changes-result:py-model", "what": f"{d['name']}: state '{s_}' CSE on {a!r}, off {b!r}, symbolic value "
                                  f"{float(ref[i])!r} at {env}"})
        if fails:
            break
    return {"n": n, "fails": fails, "nontrivial": ntemps > 0, "sig": "pym:" + d["name"], "outcomes": ["py-model-evaluated"],
            "counters": {"python_temporaries": ntemps}, "sample": {"kind": "py-model", "program": d["name"], "temporaries": ntemps, "points": n}}


def eval_case(case):
    if case["kind"] == "py-model":
        return eval_py_model(case)
    return eval_py(case) if case["kind"] == "py" else eval_cpp(case)


REQUIRED_OUTCOMES = ["py-evaluated", "py-temporaries-extracted", "py-nested-temporaries", "cpp-evaluated", "cpp-temporaries-extracted"]
