"""C18 - design workflow follows its declared transitions and selects from the grid (explicit-state on the real objects)."""
from __future__ import annotations

import dataclasses
from collections import deque

import numpy as np

from fv import pyimpl, space
from fv.claims import CLAIMS

ID = "C18"
CASE_TIMEOUT_S = 2400  # per-case alarm (seconds); a case that does not finish is reported as a violation
LEVEL = "model_checking"
TECHNIQUE = CLAIMS[ID]["technique"]
RULE = (
    "state-machine half: BFS over the REAL workflow objects from DesignManager, taking every name in "
    "available_transitions() with canned arguments (a 2-state model; a one-candidate grid and 4 data rows for fit_model); "
    "each transition executed twice from the same state object (branching); after every transition history() of EVERY object reached so far must equal the path of state_id()s that led to it, and state_id() must be a StateId; for EVERY "
    "(reached state, target StateId) pair search(target) must return a shortest path of the graph obtained by actually "
    "executing the transitions, and executing the returned names must end in the target; unreachable targets and "
    "non-StateId targets ('Fit_Model', 2, None, 1.5) must raise ValueError. Fit half: data sets of 0, 1, 2 rows must be "
    "refused with ModelFitError; for every grid of the menu over innovation_filtering / max_dt_sec / "
    "common_subexpression_elimination (quick 3 grids, thorough 9; 1-4 candidates; 4-6 rows) the selected estimator's "
    "hyper-parameters must be members of the grid (defaults for the ones not in the grid), export_python().config must "
    "carry exactly them, and sensor_models / calibration_map must be the grid's. distinct = (state, target) pairs + "
    "grids + refusals; non-trivial = all but the (state, same state) searches."
)
ASSUMPTIONS = [
    "a fit that ends in the library's MinimizationFailure is a permitted outcome (C17) and is retried with the next data variant",
    "noise magnitudes of the selected estimator are not required to be grid members: GridSearchCV refits the best estimator "
    "and fit retunes them by design (C17); their key sets are checked instead",
]


def model_def():
    return space.bind_def(2, 1, 0, order=1, sensors_shape=(1,), tag="-wf")


def param_space(d, grid):
    ps = {"process_noise": [pyimpl.pnoise(d)], "sensor_models": [pyimpl.sensors(d)], "sensor_noises": [pyimpl.snoise(d)],
          "calibration_map": [pyimpl.calmap(d)]}
    ps.update({k: list(v) for k, v in grid.items()})
    return ps


def data_rows(n, seed=0, variant=0):
    from fv.props.c16 import alphabet
    alpha = alphabet(2, seed + variant)
    order = [0, 1, 2, 1, 0, 2, 2, 0]
    return np.array([alpha[order[i % 8]] for i in range(n)], dtype=float)


GRIDS = [
    {"innovation_filtering": [None, 5.0]},
    {"max_dt_sec": [0.05, 0.1], "common_subexpression_elimination": [False]},
    {"innovation_filtering": [0.5]},
    {"innovation_filtering": [0.5, 5.0, None], "common_subexpression_elimination": [True]},
    {"common_subexpression_elimination": [True, False]},
    {"max_dt_sec": [1.0]},
    {"innovation_filtering": [5.0, 0.5], "max_dt_sec": [0.05, 0.1]},
    {},
    {"innovation_filtering": [None], "max_dt_sec": [0.1, 0.05], "common_subexpression_elimination": [False]},
    {"innovation_filtering": [None], "max_dt_sec": [0.2]},
    {"innovation_filtering": [1.0 / 3.0, 2.718281828459045], "max_dt_sec": [1.0 / 30.0]},
]


def cases(tier, seed):
    yield {"kind": "machine", "seed": seed}
    yield {"kind": "refuse", "seed": seed}
    grids = [GRIDS[0], GRIDS[1], GRIDS[8]] if tier == "quick" else GRIDS
    for g in grids:
        gi = GRIDS.index(g)
        yield {"kind": "grid", "grid": gi, "rows": 4 + gi % 3, "seed": seed}


def eval_machine(case):
    from formak import ui
    from formak.exceptions import MinimizationFailure
    from formak.ui_state_machine import StateId
    d = model_def()
    fails = []

    def fail(key, what):
        if not any(f["key"] == key for f in fails):
            fails.append({"key": key, "what": what})

    canned = {"symbolic_model": lambda: {"model": pyimpl.ui_model(d)},
              "fit_model": lambda: {"parameter_space": param_space(d, {"innovation_filtering": [5.0]}), "data": data_rows(4, case["seed"])}}
    # explicit-state BFS over the real objects; a state is the live object, its canonical form the state id
    start = ui.DesignManager("d")
    states = {}          # state_id -> (object, path of transition names, path of state ids)
    edges = {}           # state_id -> {transition name: state_id}
    frontier = deque([(start, [], [start.state_id()])])
    live = [(start, [], [start.state_id()])]
    ntrans = 0
    while frontier:
        obj, path, ids = frontier.popleft()
        sid = obj.state_id()
        if not isinstance(sid, StateId):
            fail("state-id-type", f"state_id() returned {sid!r}")
        if list(obj.history()) != ids:
            fail("history", f"after {path}: history() = {obj.history()}, visited {ids}")
        if sid in states:
            continue
        states[sid] = (obj, path, ids)
        edges[sid] = {}
        for name in obj.available_transitions():
            if name not in canned:
                fail("unknown-transition", f"transition {name} has no canned arguments in the harness")
                continue
            ntrans += 1
            try:
                nxt = None
                for variant in range(6):
                    try:
                        kwargs = canned[name]()
                        if "data" in kwargs:
                            kwargs["data"] = data_rows(4 + variant % 2, 0, variant)
                        nxt = getattr(obj, name)(**kwargs)
                        break
                    except MinimizationFailure:
                        continue  # the library's own minimisation error is a permitted outcome of fitting (C17); try other data
                if nxt is None:
                    fail("harness:no-fittable-data", f"every canned data set for {name} ended in MinimizationFailure")
                    continue
            except Exception as e:
                fail(f"transition-raises:{name}", f"{name} from {sid} raised {type(e).__name__}: {str(e)[:200]}")
                continue
            edges[sid][name] = nxt.state_id()
            frontier.append((nxt, path + [name], ids + [nxt.state_id()]))
            live.append((nxt, path + [name], ids + [nxt.state_id()]))
            # branch again from the SAME state object: a second, independent execution of the same transition
            try:
                kwargs = canned[name]()
                if "data" in kwargs:
                    kwargs["data"] = data_rows(4 + variant % 2, 0, variant)
                twin = getattr(obj, name)(**kwargs)
                ntrans += 1
                live.append((twin, path + [name], ids + [twin.state_id()]))
            except MinimizationFailure:
                pass
            except Exception as e:
                fail(f"transition-raises-second-time:{name}", f"second {name} from the same {sid} object raised {type(e).__name__}: {str(e)[:200]}")
            # the record of states visited must stay correct for EVERY object reached so far, not only the newest
            for o, pth, want in live:
                if list(o.history()) != want:
                    fail("history", f"after executing {name} from {sid}: object reached via {pth} reports history {o.history()}, visited {want}")
    # declared order: Start -> Symbolic_Model -> Fit_Model and nothing else
    declared = {StateId.Start: {StateId.Symbolic_Model}, StateId.Symbolic_Model: {StateId.Fit_Model}, StateId.Fit_Model: set()}
    for sid, out in edges.items():
        if set(out.values()) - declared.get(sid, set()):
            fail("undeclared-transition", f"{sid} can move to {set(out.values())}, declared {declared.get(sid)}")
    if set(states) != set(StateId):
        fail("unreached-state", f"reached {sorted(s.name for s in states)} of {sorted(s.name for s in StateId)}")

    def shortest(src, dst):
        q = deque([(src, [])])
        seen = {src}
        while q:
            s, p = q.popleft()
            if s == dst:
                return p
            for name, t in edges.get(s, {}).items():
                if t not in seen:
                    seen.add(t)
                    q.append((t, p + [name]))
        return None

    nsearch = 0
    sigs = []
    for sid, (obj, path, ids) in states.items():
        for target in StateId:
            nsearch += 1
            exp = shortest(sid, target)
            if sid != target:
                sigs.append(f"search:{sid.name}->{target.name}")
            try:
                got = obj.search(target)
            except ValueError:
                if exp is not None:
                    fail("search-misses-path", f"search({target}) from {sid} raised ValueError, a path exists: {exp}")
                continue
            except Exception as e:
                fail("search-wrong-error", f"search({target}) from {sid} raised {type(e).__name__}: {e}")
                continue
            if exp is None:
                fail("search-finds-unreachable", f"search({target}) from {sid} returned {got}, target unreachable")
                continue
            if len(got) != len(exp):
                fail("search-not-shortest", f"search({target}) from {sid} returned {got}, shortest is {exp}")
            # executing the returned names ends in the target (walk the executed graph)
            s = sid
            ok = True
            for name in got:
                if name not in edges.get(s, {}):
                    ok = False
                    break
                s = edges[s][name]
            if not ok or s != target:
                fail("search-path-wrong", f"search({target}) from {sid} returned {got}, which ends in {s if ok else 'an undefined transition'}")
        for bad in ("Fit_Model", 2, None, 1.5):
            nsearch += 1
            sigs.append(f"search:{sid.name}->{bad!r}")
            try:
                got = obj.search(bad)
                fail("search-accepts-non-stateid", f"search({bad!r}) from {sid} returned {got}")
            except ValueError:
                pass
            except Exception as e:
                fail("search-wrong-error", f"search({bad!r}) from {sid} raised {type(e).__name__}")
    return {"n": ntrans + nsearch, "fails": fails, "sigs": sigs,
            "counters": {"states": len(states), "transitions": ntrans, "searches": nsearch, "traces": ntrans},
            "outcomes": ["machine-explored"] + [f"reached:{s.name}" for s in states],
            "sample": {"kind": "machine", "states": [s.name for s in states], "edges": {s.name: {n: t.name for n, t in e.items()} for s, e in edges.items()}}}


def eval_refuse(case):
    from formak import ui
    from formak.exceptions import ModelFitError
    d = model_def()
    fails = []
    n = 0
    for rows in (0, 1, 2):
        for form in ("array", "list"):
            st = ui.DesignManager("d").symbolic_model(model=pyimpl.ui_model(d))
            data = data_rows(rows, case["seed"]).reshape((rows, 2))
            data = data if form == "array" else data.tolist()
            n += 1
            try:
                st.fit_model(parameter_space=param_space(d, {}), data=data)
                fails.append({"key": f"small-data-accepted:{rows}", "what": f"fit_model accepted a data set of {rows} rows ({form})"})
            except ModelFitError:
                pass
            except Exception as e:
                fails.append({"key": f"small-data-wrong-error:{rows}", "what": f"{rows} rows ({form}): {type(e).__name__}: {str(e)[:100]} instead of ModelFitError"})
    return {"n": n, "fails": fails[:3], "sigs": [f"refuse:{i}" for i in range(n)], "outcomes": ["small-data-refused"],
            "counters": {"transitions": n, "traces": n}, "sample": {"kind": "refuse", "row_counts": [0, 1, 2]}}


def eval_grid(case):
    from formak import python as fpy
    from formak import ui
    from formak.ui_state_machine import StateId
    d = model_def()
    grid = GRIDS[case["grid"]]
    tag = f"grid{case['grid']} {grid}"
    fails = []

    def fail(key, what):
        if not any(f["key"] == key for f in fails):
            fails.append({"key": key, "what": f"{tag}: {what}"})

    from formak.exceptions import MinimizationFailure
    fit = None
    nfail = 0
    for variant in range(8):
        st = ui.DesignManager("d").symbolic_model(model=pyimpl.ui_model(d))
        ps = param_space(d, grid)
        try:
            fit = st.fit_model(parameter_space=ps, data=data_rows(case["rows"] + variant % 2, case["seed"], case["grid"] + variant))
            break
        except MinimizationFailure:
            nfail += 1  # permitted outcome of fitting (C17): the property constrains what a SUCCESSFUL selection looks like
            continue
        except Exception as e:
            fail(f"fit_model-raises:{type(e).__name__}", f"{type(e).__name__}: {str(e)[:200]}")
            return {"n": 1, "fails": fails, "outcomes": ["grid-fit-raised"]}
    if fit is None:
        return {"n": nfail, "fails": [], "outcomes": ["grid-all-minimization-failures"], "sig": tag,
                "sample": {"kind": "grid", "grid": str(grid), "outcome": "MinimizationFailure on all 8 data variants"}}
    if fit.state_id() != StateId.Fit_Model or list(fit.history()) != [StateId.Start, StateId.Symbolic_Model, StateId.Fit_Model]:
        fail("history", f"fitted state id {fit.state_id()} history {fit.history()}")
    est = fit.fit_estimator
    default = fpy.Config()
    chosen = {}
    for f in dataclasses.fields(default):
        v = getattr(est.config, f.name)
        chosen[f.name] = v
        allowed = grid.get(f.name, [getattr(default, f.name)])
        if v not in allowed:
            fail("hyper-parameter-not-in-grid", f"selected {f.name} = {v!r}, grid offers {allowed}")
    ekf = fit.export_python()
    for f in dataclasses.fields(default):
        if getattr(ekf.config, f.name) != chosen[f.name]:
            fail("export-config", f"export_python().config.{f.name} = {getattr(ekf.config, f.name)!r}, selected {chosen[f.name]!r}")
    if est.sensor_models != ps["sensor_models"][0] or est.calibration_map != ps["calibration_map"][0]:
        fail("structural-parameters", "sensor_models / calibration_map of the selected estimator are not the grid's")
    if set(map(str, est.process_noise)) != set(map(str, ps["process_noise"][0])) or {k: set(v) for k, v in est.sensor_noises.items()} != {
            k: set(v) for k, v in ps["sensor_noises"][0].items()}:
        fail("noise-key-sets", f"noise maps of the selected estimator name {sorted(map(str, est.process_noise))} / {est.sensor_noises}")
    ncand = 1
    for v in grid.values():
        ncand *= len(v)
    return {"n": 1, "fails": fails, "sig": tag, "counters": {"transitions": 1, "traces": 1, "grid_candidates": ncand},
            "outcomes": ["grid-fitted"] + (["multi-candidate-grid"] if ncand > 1 else []),
            "sample": {"kind": "grid", "grid": {k: [str(x) for x in v] for k, v in grid.items()}, "rows": case["rows"],
                       "selected": {k: str(v) for k, v in chosen.items() if k != "python_modules"}}}


def eval_case(case):
    return {"machine": eval_machine, "refuse": eval_refuse, "grid": eval_grid}[case["kind"]](case)


def finalize(agg, tier):
    c = agg["counters"]
    return {"states": c.get("states", 0), "transitions": c.get("transitions", 0),
            "traces_validated_against_impl": c.get("traces", 0),
            "explanation": "the explored graph is obtained by executing the real transitions; search() results are compared with BFS on that graph"}


REQUIRED_OUTCOMES = ["machine-explored", "reached:Start", "reached:Symbolic_Model", "reached:Fit_Model", "small-data-refused",
                     "grid-fitted", "multi-candidate-grid"]
