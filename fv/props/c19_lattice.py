"""C19 thorough tier: agreement on a unisolvent lattice => agreement for ALL real inputs, given measured degree bounds.

For one output the model is a rational function N_m/D_m and the reference N_r/D_r. The difference vanishes identically
iff the polynomial P = N_m D_r - N_r D_m is zero. P lies in the tensor-product space  Pi_Dq(R^8) (x) Pi_Do(R^r)
(total degree <= Dq in the 8 quaternion components, <= Do in the r remaining variables the output depends on). The
principal lattice {x in N^n : sum x <= D} is unisolvent for Pi_D(R^n), products of unisolvent sets are unisolvent for
the tensor product, and unisolvence is translation invariant (we shift every coordinate by +1 so that no quaternion
is zero and |q|^2 never vanishes). So: model(x) == reference(x) (exact rationals) at every lattice point  =>  P == 0.
The degree bounds are measured on the model's own expression (sympy.fraction / Poly.total_degree of numerator and
denominator); the reference's are known by construction. The verdict comes only from the enumeration.
"""
from __future__ import annotations

import itertools
from fractions import Fraction as F

GROUPS = {
    # output group: (reference degrees (num_q, den_q, num_o, den_o))
    "a": (4, 4, 1, 0),
    "v": (4, 4, 2, 0),
    "p": (4, 4, 3, 0),
    "rates": (4, 0, 1, 0),
    "ori": (1, 0, 2, 0),
}


def lattice(n, D):
    """all x in N^n with sum(x) <= D"""
    def rec(k, left):
        if k == 0:
            yield ()
            return
        for v in range(left + 1):
            for rest in rec(k - 1, left - v):
                yield (v,) + rest
    return rec(n, D)


_MEASURED = None


def measure():
    """per output: free variables and total degrees of numerator/denominator in quaternion and other variables"""
    global _MEASURED
    if _MEASURED is not None:
        return _MEASURED
    import sympy
    from formak.reference_models import strapdown_imu as m
    from fv.props import c19
    qnames = set(c19.NAMES["ori"] + c19.NAMES["cori"])
    out = {}
    for k, v in m.state_model.items():
        e = sympy.nsimplify(v, rational=True)
        num, den = sympy.fraction(sympy.together(e))
        syms = sorted(e.free_symbols, key=lambda s: s.name)
        qs = [s for s in syms if s.name in qnames]
        os_ = [s for s in syms if s.name not in qnames]

        def deg(expr, gens):
            if not gens or not expr.free_symbols & set(gens):
                return 0
            return sympy.Poly(expr, *gens).total_degree()

        out[k.name] = {"q": [s.name for s in qs], "o": [s.name for s in os_],
                       "nq": deg(num, qs), "dq": deg(den, qs), "no": deg(num, os_), "do": deg(den, os_)}
    _MEASURED = out
    return out


def group_of(name):
    from fv.props import c19
    for g, names in c19.NAMES.items():
        if name in names and g in GROUPS:
            return g
    raise KeyError(name)


def plan():
    """[(output name, Dq, Do, q vars, o vars, #points)]"""
    from math import comb
    from fv.props import c19
    meas = measure()
    rows = []
    allq = c19.NAMES["ori"] + c19.NAMES["cori"]
    for name, mm in meas.items():
        rnq, rdq, rno, rdo = GROUPS[group_of(name)]
        Dq = max(mm["nq"] + rdq, rnq + mm["dq"])
        Do = max(mm["no"] + rdo, rno + mm["do"])
        qv = [q for q in allq if q in mm["q"]] or []
        # the reference may depend on quaternion components the (mutated) model dropped: always span all 8 for rotated outputs
        if group_of(name) in ("a", "v", "p", "rates"):
            qv = allq
        else:
            qv = c19.NAMES["ori"]
        ov = sorted(set(mm["o"]) | set(ref_other_vars(name)))
        rows.append((name, Dq, Do, qv, ov, comb(len(qv) + Dq, Dq) * comb(len(ov) + Do, Do)))
    return rows


def ref_other_vars(name):
    from fv.props import c19
    g = group_of(name)
    i = c19.NAMES[g].index(name)
    fb = c19.NAMES["f"] + c19.NAMES["b"]
    if g == "a":
        return fb + (["g"] if i == 2 else [])
    if g == "v":
        return fb + (["g"] if i == 2 else []) + ["dt", c19.NAMES["v"][i]]
    if g == "p":
        return fb + (["g"] if i == 2 else []) + ["dt", c19.NAMES["v"][i], c19.NAMES["p"][i]]
    if g == "rates":
        return c19.NAMES["w"]
    return c19.NAMES["w"] + ["dt"]


def cases(tier, seed):
    from math import comb
    for name, Dq, Do, qv, ov, npts in plan():
        # split the q-lattice by a prefix of its coordinates into independent work units of bounded size
        nopt = comb(len(ov) + Do, Do)
        L = 1
        while L < len(qv) - 1 and comb(len(qv) - L + Dq, Dq) * nopt > 200000:
            L += 1
        for prefix in lattice(L, Dq):
            yield {"kind": "lattice", "output": name, "Dq": Dq, "Do": Do, "prefix": list(prefix), "qvars": qv, "ovars": ov, "points": npts}


def eval_case(case):
    from fv.props import c19
    ex = c19.exact_model()
    syms = ex["__syms__"]
    fn = ex[case["output"]]
    name = case["output"]
    qv, ov, Dq, Do = case["qvars"], case["ovars"], case["Dq"], case["Do"]
    g = group_of(name)
    gi = c19.NAMES[g].index(name)
    opts = [tuple(x + 1 for x in y) for y in lattice(len(ov), Do)]
    n = 0
    fails = []
    prefix = tuple(case["prefix"])
    env = {s: F(0) for s in syms}
    for rest in lattice(len(qv) - len(prefix), Dq - sum(prefix)):
        qpt = tuple(x + 1 for x in prefix + rest)
        # quaternion components not spanned by this output keep a fixed non-zero value
        for s in c19.NAMES["ori"] + c19.NAMES["cori"]:
            env[s] = F(1)
        for s, v in zip(qv, qpt):
            env[s] = F(v)
        ori = tuple(env[s] for s in c19.NAMES["ori"])
        cori = tuple(env[s] for s in c19.NAMES["cori"])
        # quaternion part of the reference, once per quaternion lattice point
        q = c19.qmul(ori, cori)
        n2 = sum(x * x for x in q)
        qc = c19.qconj(q)
        basis_rot = [c19.qmul(c19.qmul(q, (0,) + e), qc)[1:] for e in ((1, 0, 0), (0, 1, 0), (0, 0, 1))]  # columns of |q|^2 R(q)
        for opt in opts:
            for s, v in zip(ov, opt):
                env[s] = F(v)
            if g in ("a", "v", "p"):
                sf = [env[a] - env[b] for a, b in zip(c19.NAMES["f"], c19.NAMES["b"])]
                acc = sum(basis_rot[j][gi] * sf[j] for j in range(3)) / n2 - (env["g"] if gi == 2 else 0)
                dt = env["dt"]
                if g == "a":
                    ref = acc
                elif g == "v":
                    ref = env[c19.NAMES["v"][gi]] + acc * dt
                else:
                    ref = env[c19.NAMES["p"][gi]] + env[c19.NAMES["v"][gi]] * dt + acc * dt * dt / 2
            elif g == "rates":
                w = [env[s] for s in c19.NAMES["w"]]
                ref = sum(basis_rot[j][gi] * w[j] for j in range(3))
            else:
                w = tuple(env[s] for s in c19.NAMES["w"])
                ref = ori[gi] + F(1, 2) * c19.qmul(ori, (0,) + w)[gi] * env["dt"]
            got = fn(*[env[s] for s in syms])
            n += 1
            if got != ref:
                fails.append({"key": f"kinematics-lattice:{name}", "what": f"state_model[{name}] = {got}, kinematics give {ref} at lattice point "
                              f"{ {s: str(env[s]) for s in qv + ov} }"})
                return {"n": n, "fails": fails}
    return {"n": n, "fails": fails, "sigs": [], "distinct_count": n, "nontrivial": False,
            "counters": {"lattice_points": n}, "outcomes": ["lattice-evaluated", f"lattice:{g}"],
            "sample": {"kind": "lattice", "output": name, "Dq": Dq, "Do": Do, "q_vars": len(qv), "other_vars": ov,
                       "points_in_this_unit": n, "points_for_output": case["points"], "measured_degrees": measure()[name]}}
