def cases(tier, seed):
    return iter(())


def eval_case(case):
    raise NotImplementedError
