"""C15 - code generation is deterministic (hash seeds x declaration orders x containers)."""
from __future__ import annotations

import difflib
import hashlib
import itertools
import json
import os
import subprocess
import tempfile

from fv import core, space
from fv.claims import CLAIMS

ID = "C15"
CASE_TIMEOUT_S = 7200  # per-case alarm (seconds); a case that does not finish is reported as a violation
LEVEL = "exploration"
TECHNIQUE = CLAIMS[ID]["technique"]
RULE = (
    "10 definitions (CSE-heavy, one with inputs named _t0.._t4, numbered sensor keys, a 5-state turn-rate model, a wide model, multi-sensor with multi-reading sensors, calibration, all four control x calibration "
    "combinations) x declaration-order variants (every permutation of the state declaration order - every rotation and the reversal for definitions with more than 3 states -, reversed controls / "
    "calibrations / update-dict / calibration-map / noise dicts / sensors / readings, set vs list containers) x "
    "PYTHONHASHSEED in 0..7 (quick; 4 declaration variants per definition, 3 for the large ones) / 0..63 (thorough), every hash seed in its own interpreter process; observed: the "
    "full text of header and source from cpp.compile_ekf and cpp.compile, and the Python layout (Model.arglist, names of "
    "State/Control/Calibration/Covariance/each Reading, calibration vector, process-noise matrix). Oracle: exactly one "
    "text per definition and output kind, one layout per definition; in every process each definition is generated again with "
    "time.time / time.monotonic / time.perf_counter moved forward by 1 hour and by 1e9 s and must produce the same text, and three definitions are generated once more over the existing output files of a look-alike definition (same header, other source); the processes walk the job list in three different orders (forwards, backwards, rotated), so the "
    "cross-process comparison also decides that a text does not depend on what was generated before it. One evaluation = one generation. distinct = "
    "(definition, variant, hash seed); non-trivial = variant differs from the base declaration order or hash seed != 0."
)
ASSUMPTIONS = ["each hash seed runs in a fresh subprocess of /venv/bin/python with PYTHONHASHSEED set"]


def base_defs():
    from fv.props.c08 import with_sensors as cse_sens
    cse = [d for d in space.family_cse("thorough") if d["name"] in ("cse-nest3", "cse-sumu-sq-ssin-rat")]
    # the first definition's inputs are NAMED like CSE temporaries (_t0.._t4): generated before (or, in processes that walk the
    # job list backwards, after) everything else
    tnamed = space.rename_def(cse_sens(cse[0]), {"x": "_t0", "y": "_t1", "u": "_t2", "c": "_t3", "z": "_t4"})
    return [tnamed, cse_sens(cse[0]), cse_sens(cse[-1]),
            space.bind_def(3, 2, 2, order=0, sensors_shape=(2, 1, 3)),
            space.bind_def(3, 0, 1, order=0, sensors_shape=(3, 1)),
            space.bind_def(2, 2, 0, order=0, sensors_shape=(1, 2)),
            space.bind_def(3, 0, 0, order=0, sensors_shape=(2,)),
            turn_rate_def(), numbered_sensors_def(),
            space.bind_def(5, 3, 3, order=0, sensors_shape=(3, 1), tag="-wide")]


def numbered_sensors_def():
    """sensor keys that share a prefix and a first number (imu1_accel / imu1_gyro), or differ only in digits (imu2 / imu10)"""
    S, add, mul, C = space.S, space.add, space.mul, space.C
    x, y = S("x"), S("y")
    sensors = [["imu10", [["r", add(x, y)]]], ["imu1_gyro", [["r", mul(x, y)]]], ["imu2", [["r", x]]], ["imu1_accel", [["r", y]]],
               ["imu01", [["r", add(x, mul(C(2), y))]]]]
    snoise = [[k_, [["r", 0.25 * (i_ + 1)]]] for i_, (k_, _) in enumerate(reversed(sensors))]
    return space.mkdef("numbered-sensors", ["y", "x"], ["u"], [], [["y", add(y, mul(space.DT, S("u")))], ["x", add(x, mul(space.DT, y))]], [],
                       [["u", 0.25]], sensors, snoise)


def turn_rate_def():
    """5 states, 25-entry process Jacobian with sin/cos pairs of equal cost sharing sub-expressions (blocks of > 16 statements)"""
    S, DT, add, mul, fn, C = space.S, space.DT, space.add, space.mul, space.fn, space.C
    px, py, th, v, w, a, al = S("px"), S("py"), S("th"), S("v"), S("w"), S("a"), S("al")
    model = [["px", add(px, mul(mul(v, DT), fn("cos", add(th, mul(w, DT)))))],
             ["py", add(py, mul(mul(v, DT), fn("sin", add(th, mul(w, DT)))))],
             ["th", add(th, mul(w, DT))], ["v", add(v, mul(a, DT))], ["w", add(w, mul(al, DT))]]
    sensors = [["radar", [["rng", add(mul(px, px), mul(py, py))], ["brg", fn("atan", mul(py, fn("cos", th)))]]],
               ["gps", [["e", add(px, mul(C(1, 2), fn("sin", th)))], ["n", add(py, mul(C(1, 2), fn("cos", th)))]]]]
    snoise = [["gps", [["n", 0.5], ["e", 0.25]]], ["radar", [["brg", 0.125], ["rng", 2.0]]]]
    return space.mkdef("turnrate5", ["px", "py", "th", "v", "w"], ["a", "al"], [], model, [], [["al", 0.5], ["a", 0.25]], sensors, snoise)



def variant(d, vi, perm):
    v = json.loads(json.dumps(d))
    st = sorted(d["state"])
    v["state"] = [st[i] for i in perm]
    flags = vi
    if flags & 1:
        v["control"].reverse()
        v["pnoise"].reverse()
    if flags & 2:
        v["calibration"].reverse()
        v["calmap"].reverse()
    if flags & 4:
        v["model"].reverse()
    if flags & 8:
        v["sensors"].reverse()
        v["snoise"].reverse()
    if flags & 16:
        v["sensors"] = [[k, list(reversed(rs))] for k, rs in v["sensors"]]
        v["snoise"] = [[k, list(reversed(rs))] for k, rs in v["snoise"]]
    v["container"] = "list" if flags & 32 else "set"
    return v


def variants(d, tier):
    st = sorted(d["state"])
    if len(st) <= 3:
        perms = list(itertools.permutations(range(len(st))))
    else:  # large definitions: every rotation and the reversal of the declaration order instead of all n! orders
        idx = list(range(len(st)))
        perms = [tuple(idx[r_:] + idx[:r_]) for r_ in range(len(st))] + [tuple(reversed(idx))]
    out = []
    flagsets = [0, 63, 21, 42] if tier == "quick" else [0, 63, 21, 42, 36, 27, 7, 56, 33, 30, 45, 18]
    if tier == "quick" and len(st) >= 5:
        flagsets = [0, 63, 21]  # the two large definitions are expensive to generate: three variants each in the quick tier
    for i, fl in enumerate(flagsets):
        out.append((f"p{i % len(perms)}f{fl}", variant(d, fl, perms[i % len(perms)])))
    if tier == "thorough":
        for pi, p in enumerate(perms):
            out.append((f"p{pi}f9", variant(d, 9, p)))
    return out


def cases(tier, seed):
    nseeds = 8 if tier == "quick" else 64
    defs = base_defs()
    jobs = []
    for di, d in enumerate(defs):
        for vid, v in variants(d, tier):
            jobs.append([f"{di}:{vid}", v])
    # one case = one hash seed (its own interpreter); the cross-seed comparison happens in finalize
    # ... and its own ORDER of generation: forwards, backwards, or rotated by a third - the cross-process comparison then also
    # decides that a generated text does not depend on what the same process generated before it
    for hs in range(nseeds):
        order = [jobs, list(reversed(jobs)), jobs[len(jobs) // 3:] + jobs[:len(jobs) // 3]][hs % 3]
        yield {"hashseed": (hs + seed * 64) % 4294967295 if hs else 0, "jobs": order}


def run_worker(hashseed, jobs):
    with tempfile.NamedTemporaryFile("w", suffix=".json", delete=False) as f:
        json.dump(jobs, f)
        path = f.name
    try:
        env = dict(os.environ, PYTHONHASHSEED=str(hashseed))
        p = subprocess.run(["/venv/bin/python", "-W", "ignore", "-m", "fv.c15_worker", path], capture_output=True, text=True,
                           env=env, cwd=core.REPO, timeout=6000)
    finally:
        os.unlink(path)
    if p.returncode != 0:
        raise RuntimeError(f"worker failed: {p.stderr[-500:]}")
    return json.loads(p.stdout.strip().splitlines()[-1])


KINDS = ["ekf_header", "ekf_source", "model_header", "model_source", "layout"]


def eval_case(case):
    res = run_worker(case["hashseed"], case["jobs"])["results"]
    fails = []
    digest = {}
    texts = {}
    n = 0
    groups = {}
    for vid, rec in res.items():
        di = vid.split(":")[0]
        if "error" in rec:
            fails.append({"key": f"generation-raises:def{di}", "what": f"hashseed {case['hashseed']} variant {vid}: {rec['error']}"})
            continue
        n += 1
        for tag in ("clock+1h", "clock+30y", "reused-paths"):
            for kind in ("ekf_header", "ekf_source"):
                if f"{kind}@{tag}" in rec:
                    n += 1
                    if rec[f"{kind}@{tag}"] != rec[kind]:
                        diff = "\n".join(list(difflib.unified_diff(rec[kind].splitlines(), rec[f"{kind}@{tag}"].splitlines(), "start-up", tag,
                                                                   lineterm="", n=1))[:30])
                        fails.append({"key": f"{'clock' if tag.startswith('clock') else 'existing-files'}-changes-output:{kind}", "what": f"hashseed {case['hashseed']} variant {vid}: {kind} "
                                      + (f"generated with the process clocks moved by {tag[6:]} differs from the one generated at start-up" if tag.startswith("clock")
                                         else "generated into a directory that already held the output of a look-alike definition differs from the one generated into an empty directory"),
                                      "detail": diff})
        for k in KINDS:
            h = hashlib.sha256(rec[k].encode()).hexdigest()[:16]
            digest[f"{vid}|{k}"] = h
            groups.setdefault((di, k), {}).setdefault(h, (vid, rec[k]))
    # within this process: all variants of one definition must agree
    for (di, k), hs in groups.items():
        if len(hs) > 1:
            (v1, t1), (v2, t2) = list(hs.values())[:2]
            diff = "\n".join(list(difflib.unified_diff(t1.splitlines(), t2.splitlines(), v1, v2, lineterm="", n=1))[:40])
            fails.append({"key": f"declaration-order-changes-output:{k}", "what": f"hashseed {case['hashseed']}: definition {di} "
                          f"generates different {k} for variants {v1} and {v2}", "detail": diff})
    # keep one representative text per (definition, kind) for the cross-seed comparison in finalize
    rep = {f"{di}|{k}": list(hs.values())[0][1] for (di, k), hs in groups.items()}
    return {"n": n, "fails": fails, "sigs": [f"{case['hashseed']}:{vid}" for vid in res if not (case["hashseed"] == 0 and vid.endswith("p0f0"))],
            "outcomes": ["generated"], "counters": {"generations": n},
            "digest": {k: hashlib.sha256(t.encode()).hexdigest()[:16] for k, t in rep.items()},
            "rep": rep if case["hashseed"] in (0,) else None, "hashseed": case["hashseed"],
            "sample": {"hashseed": case["hashseed"], "variants": len(res),
                       "digests": {k: v for k, v in list(digest.items())[:3]}}}


REQUIRED_OUTCOMES = ["generated"]


def cross_check(cases_, results):
    """across interpreter processes: one text per (definition, kind) whatever the hash seed"""
    out = []
    base = None
    for c, r in zip(cases_, results):
        if r.get("rep"):
            base = r
            break
    if base is None:
        return out
    for c, r in zip(cases_, results):
        if r is base or "digest" not in r:
            continue
        for k, h in r["digest"].items():
            if base["digest"].get(k) != h:
                di, kind = k.split("|")
                # replay: the same two interpreter processes again (same hash seeds, each with ITS order of generation), diffed
                order = ["forwards", "backwards", "rotated by a third"][cases_.index(c) % 3]
                out.append(({"hashseed": c["hashseed"], "jobs": c["jobs"], "compare_with_hashseed": base["hashseed"],
                             "compare_jobs": cases_[results.index(base)]["jobs"], "only_definition": di},
                            {"key": f"hash-seed-or-generation-order-changes-output:{kind}", "what": f"definition {di}: {kind} generated under "
                             f"PYTHONHASHSEED={c['hashseed']} (job list walked {order}) differs from PYTHONHASHSEED={base['hashseed']} (walked forwards)"}))
                break
    return out


_orig_eval = eval_case


def eval_case(case):  # noqa: F811  (replay of a cross-seed difference compares two fresh interpreters)
    if "compare_with_hashseed" in case:
        a = run_worker(case["hashseed"], case["jobs"])["results"]
        b = run_worker(case["compare_with_hashseed"], case.get("compare_jobs") or case["jobs"])["results"]
        fails = []
        for vid in a:
            if case.get("only_definition") is not None and not vid.startswith(case["only_definition"] + ":"):
                continue
            for k in KINDS:
                if a[vid].get(k) != b[vid].get(k):
                    diff = "\n".join(list(difflib.unified_diff((b[vid].get(k) or "").splitlines(), (a[vid].get(k) or "").splitlines(),
                                                               "seed0", f"seed{case['hashseed']}", lineterm="", n=1))[:40])
                    fails.append({"key": f"hash-seed-or-generation-order-changes-output:{k}", "what": f"{vid}: {k} differs between PYTHONHASHSEED="
                                  f"{case['compare_with_hashseed']} and {case['hashseed']} (each process with its own order of generation)", "detail": diff})
        return {"n": 2, "fails": fails[:2]}
    return _orig_eval(case)
