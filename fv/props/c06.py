"""C06 - reading discarded iff NIS > k*sqrt(2m)+m; a discard changes nothing; disabled never discards;
Python filter, generated C++ filter and the C++ helper agree."""
from __future__ import annotations

from fractions import Fraction
from math import nextafter, sqrt, inf

import numpy as np

from fv import pyimpl, space
from fv.claims import CLAIMS

ID = "C06"
LEVEL = "exploration"
TECHNIQUE = CLAIMS[ID]["technique"]
RULE = (
    "for every reading dimension m in {1,2,3,4} (+8 for the helper: sqrt(2m) exact) and threshold k in {0.5,1,3,5, e, 1/3, 4e-7, 123.456789012345} and "
    "the disabled setting: NIS values {T-1ulp, T, T+1ulp, T/2, 4T, 1e6} around the double threshold T = k*sqrt(2m)+m, "
    "realised exactly in every summation order (unit innovation with S^-1 = diag(v,1,..); dense dyadic S^-1 and "
    "innovations for the exactly representable thresholds) for the helper functions, and through identity sensors with "
    "S = I for the filters (boundary readings sqrt(T) and its two neighbours, oracle = IEEE product). One evaluation = "
    "one decision. distinct = (implementation, m, k, NIS case); non-trivial = the case lies within 1 ulp of the boundary "
    "or flips the decision relative to its neighbour. General filters (coupled 2-3 state models, non-zero state) x priors {dense, dense "
    "with a 1-ulp asymmetry, output of a prediction} x every sensor x outliers {1e3, -1e6 in each reading; +-inf for 1-reading "
    "sensors}: a discard returns state and covariance bit for bit (Python filter and generated C++ filter). Thresholds are also given as "
    "int, numpy.int64 and numpy.float64 values (the boundary cases are the same; a float32 threshold is not used, its bound is "
    "legitimately computed in single precision)."
)
ASSUMPTIONS = [
    "decision oracle: IEEE double comparison NIS > k*sqrt(2*m)+m evaluated in Python floats (same expression as the property)",
    "boundary cases constructed so that the NIS is exact in any summation order",
]
MS = [1, 2, 3, 4]
KS = [0.5, 1.0, 3.0, 5.0]
# thresholds that are not short decimals: a many-digit irrational, a repeating fraction, a tiny and a large one
KS_EXTRA = [2.718281828459045, 1.0 / 3.0, 4e-07, 123.456789012345]


def threshold(k, m):
    return float(k) * sqrt(2 * m) + m


# the same thresholds given as another numeric type (a threshold of 4 is usually written 4, not 4.0)
KS_TYPED = [(4, "int"), (1, "int"), (3, "np.int64"), (1.5, "np.float64")]


def typed(k, ktype):
    if ktype is None or k is None:
        return k
    return {"int": int, "np.float32": np.float32, "np.int64": np.int64, "np.float64": np.float64}[ktype](k)


def identity_def(m):
    names = ["a", "b", "c", "d"][:m]
    model = [[n, space.S(n)] for n in names]
    sens = [["s", [[f"r{n}", space.S(n)] for n in names]]]
    sn = [["s", [[f"r{n}", 0.5] for n in names]]]
    return space.mkdef(f"ident{m}", names, [], [], model, [], [], sens, sn)


def cases(tier, seed):
    for m in MS + [8]:
        for k in KS + KS_EXTRA + [None]:
            yield {"kind": "py-direct", "m": m, "k": k}
    for m in MS:
        for k in KS + KS_EXTRA + [None]:
            yield {"kind": "py-filter", "m": m, "k": k}
    for m in (1, 2, 3):
        for k, kt in KS_TYPED:
            yield {"kind": "py-direct", "m": m, "k": k, "ktype": kt}
            yield {"kind": "py-filter", "m": m, "k": k, "ktype": kt}
    # several sensors of different dimension in ONE filter: each sensor's decision uses its own dimension
    for dims in ([1, 3], [3, 1], [2, 4, 1]):
        for k in (2.0, 5.0):
            yield {"kind": "py-multi", "dims": dims, "k": k, "m": 0}
    # "a discard changes nothing" on general filters: coupled models, non-zero states, priors that are symmetric only up to
    # rounding (a supplied 1-ulp asymmetry, the output of a prediction), far-out and infinite readings
    for shape, sens in (((2, 1, 1), (1, 2)), ((3, 1, 0), (2, 1, 3)), ((3, 2, 2), (3, 1))):
        for k in (5.0, 0.5):
            yield {"kind": "py-discard", "shape": list(shape), "sens": list(sens), "k": k, "m": 0, "seed": seed}
    from fv.props import c06_cpp
    yield from c06_cpp.cases(tier, seed)


def direct_inputs(m, k):
    """(label, innovation list, S_inv rows, exact NIS as Fraction)"""
    T = threshold(k if k is not None else 5.0, m)
    out = []
    for label, v in [("T-1ulp", nextafter(T, -inf)), ("T", T), ("T+1ulp", nextafter(T, inf)), ("T/2", T / 2),
                     ("4T", 4 * T), ("1e6", 1e6)]:
        for pos in range(m):
            y = [1.0 if i == pos else 0.0 for i in range(m)]
            Sinv = [[(v if i == pos else 1.0) if i == j else 0.0 for j in range(m)] for i in range(m)]
            out.append((f"unit{pos}:{label}", y, Sinv, Fraction(v)))
    # the same decisions with the innovation scaled by 2^15 / 2^-15 and S^-1 by 2^-30 / 2^30: a power-of-two scaling is exact in
    # binary floating point, so the NIS (and the decision) is bit-identical whatever the magnitude of S
    base = list(out)
    for sc, tag in ((2.0 ** 15, "x2^15"), (2.0 ** -15, "x2^-15")):
        for label, y, Sinv, nis in base[:: max(1, len(base) // 12)]:
            out.append((f"{label}:{tag}", [v * sc for v in y], [[v / (sc * sc) for v in r] for r in Sinv], nis))
    if m >= 2:
        # correlated S of large magnitude: off-diagonals of S^-1 are tiny in absolute terms but decide the outcome
        for sc, tag in ((2.0 ** 30, "S~2^30"), (1.0, "S~1")):
            a, b = 1.0 / sc, 0.875 / sc  # S^-1 = [[a, -b], [-b, a]] (+ identity / sc): innovation (+r, -r) -> NIS = 2 r^2 (a + b)
            Sinv = [[0.0] * m for _ in range(m)]
            for i in range(m):
                Sinv[i][i] = a
            Sinv[0][1] = Sinv[1][0] = -b
            # against the correlation: true NIS 1.5 T (discard) while the diagonal terms alone give 0.8 T;
            # along the correlation: true NIS 0.5 T (keep) while the diagonal terms alone give 4 T
            for lab2, sign, target, eff in (("against", -1.0, 1.5 * T, a + b), ("along", 1.0, 0.5 * T, a - b)):
                r = sqrt(target / (2.0 * eff))
                y = [r, sign * r] + [0.0] * (m - 2)
                nis_exact = Fraction(r) * Fraction(r) * 2 * (Fraction(a) - Fraction(sign) * Fraction(b))
                out.append((f"correlated:{tag}:{lab2}", y, Sinv, nis_exact))
    if m >= 2 and Fraction(T).denominator <= 2 ** 10:
        # exactly representable threshold reached through a dense S^-1: y = (1,2,0..), S^-1 = [[a,b],[b,c]] (+I)
        b, c = 0.5, 0.25
        for label, eps in [("dense:T", 0.0), ("dense:T+2^-20", 2.0 ** -20), ("dense:T-2^-20", -(2.0 ** -20))]:
            a = T - 3.0 + eps  # a + 4b + 4c = a + 3
            y = [1.0, 2.0] + [0.0] * (m - 2)
            Sinv = [[0.0] * m for _ in range(m)]
            Sinv[0][0], Sinv[0][1], Sinv[1][0], Sinv[1][1] = a, b, b, c
            for i in range(2, m):
                Sinv[i][i] = 1.0
            out.append((label, y, Sinv, Fraction(a) + 4 * Fraction(b) + 4 * Fraction(c)))
    return out


def multi_def(dims):
    n = max(dims)
    names = ["a", "b", "c", "d"][:n]
    model = [[x, space.S(x)] for x in names]
    sens = [[f"s{i}", [[f"r{x}", space.S(x)] for x in names[:m]]] for i, m in enumerate(dims)]
    sn = [[f"s{i}", [[f"r{x}", 0.5] for x in names[:m]]] for i, m in enumerate(dims)]
    return space.mkdef("multi" + "".join(map(str, dims)), names, [], [], model, [], [], sens, sn)


def eval_multi(case):
    dims, k = case["dims"], case["k"]
    d = multi_def(dims)
    ekf = pyimpl.py_ekf(d, {"innovation_filtering": k})
    names = sorted(d["state"])
    fails, outcomes, sigs = [], set(), []
    n = 0
    for si, m in enumerate(dims):
        key = f"s{si}"
        T = threshold(k, m)
        r = sqrt(T)
        for label, z1 in [("sqrtT-", nextafter(r, -inf)), ("sqrtT+", nextafter(nextafter(r, inf), inf)), ("half", r / 2), ("double", 2 * r)]:
            z = [z1] + [0.0] * (m - 1)
            nis = z1 * z1
            exp = nis > T
            state = ekf.State()
            cov = ekf.Covariance(**{s_: 0.5 for s_ in names})
            reading = ekf.make_reading(key, **{f"r{s_}": z[i] for i, s_ in enumerate(names[:m])})
            try:
                out = ekf.sensor_model(state, cov, sensor_key=key, sensor_reading=reading)
            except Exception as e:
                fails.append({"key": f"raises:{type(e).__name__}:py-multi", "what": f"dims={dims} k={k} sensor {key}: {e!r}"[:300]})
                break
            n += 1
            got = bool(np.array_equal(out.state.data, state.data) and np.array_equal(out.covariance.data, cov.data))
            outcomes.add("discard" if got else "keep")
            sigs.append(f"pym:{dims}:{k}:{key}:{label}")
            if got != exp and not any(f["key"] == "decision:py-multi" for f in fails):
                fails.append({"key": "decision:py-multi", "what": f"filter with sensors of dimensions {dims}, k={k}: sensor {key} (m={m}) reading "
                              f"{z} discarded={got}, but NIS={nis!r} > T(m={m})={T!r} is {exp}"})
    return {"n": n, "fails": fails, "sigs": sigs, "outcomes": sorted(outcomes) + ["py-multi-sensor"],
            "sample": {"kind": "py-multi", "dims": dims, "k": k}}


def eval_discard(case):
    from fv.ekfref import RefEKF, cov_menu
    from fv import refmodel as R
    n_, k_, c_ = case["shape"]
    d = space.bind_def(n_, k_, c_, order=3, sensors_shape=tuple(case["sens"]))
    k = case["k"]
    ekf = pyimpl.py_ekf(d, {"innovation_filtering": k})
    ref = RefEKF(d)
    ns = len(ref.st)
    fails, sigs, n = [], [], 0

    def fail(key, what):
        if not any(f["key"] == f"{key}:py-discard" for f in fails):
            fails.append({"key": f"{key}:py-discard", "what": f"{d['name']} k={k}: {what}"})

    dense = np.array(cov_menu(ns, "quick")[2][1], dtype=float)
    priors = [("dense", dense.copy())]
    ulp = dense.copy()
    ulp[0, ns - 1] = nextafter(ulp[0, ns - 1], inf)  # symmetric up to one unit in the last place: a valid covariance
    priors.append(("dense+1ulp", ulp))
    env = next(iter(space.some_points(ref.st + ref.ct, 1, case["seed"])))
    state0 = ekf.State(**{s_: env[s_] for s_ in ref.st})
    try:
        pm = ekf.process_model(0.125, state0, ekf.Covariance.from_data(dense.copy()), ekf.Control(**{s_: env[s_] for s_ in ref.ct}))
        priors.append(("predicted", np.array(pm.covariance.data, dtype=float)))
    except Exception as e:
        fail(f"raises:{type(e).__name__}", f"process_model raised {e!r}"[:200])
    for pname, P in priors:
        for key in sorted(ref.h):
            names = ref.readings(key)
            m = len(names)
            T = threshold(k, m)
            hx = [float(v) for v in ref.hx(key, ref.env(env))]
            outl = [("1e3", 1e3), ("-1e6", -1e6)] + ([("+inf", inf), ("-inf", -inf)] if m == 1 else [])
            for label, off in outl:
                for pos in range(m):
                    z = [h + (off if i == pos else 0.0) for i, h in enumerate(hx)]
                    if off not in (inf, -inf):  # the documented criterion, evaluated by the reference, must say "discard" by a wide margin
                        nis = float(ref.update(key, ref.env(env), R.M(P.tolist()), [R.mp.mpf(v) for v in z])[4])
                        if not nis > 100 * T:
                            continue
                    state = ekf.State(**{s_: env[s_] for s_ in ref.st})
                    cov = ekf.Covariance.from_data(P.copy())
                    s0, p0 = state.data.copy(), cov.data.copy()
                    try:
                        out = ekf.sensor_model(state, cov, sensor_key=key, sensor_reading=ekf.make_reading(key, **dict(zip(names, z))))
                    except Exception as e:
                        fail(f"raises:{type(e).__name__}", f"prior {pname}, sensor {key}, reading {label}: {e!r}"[:300])
                        continue
                    n += 1
                    sigs.append(f"pydisc:{case['shape']}:{k}:{pname}:{key}:{label}:{pos}")
                    if out.state.data.tobytes() != s0.tobytes():
                        fail("discard-changes-state", f"prior {pname}, sensor {key}, outlier {label} in reading {names[pos]}: state "
                             f"{s0.ravel().tolist()} -> {out.state.data.ravel().tolist()}")
                    if out.covariance.data.tobytes() != p0.tobytes():
                        dd = np.abs(np.asarray(out.covariance.data) - p0)
                        fail("discard-changes-covariance", f"prior {pname}, sensor {key}, outlier {label} in reading {names[pos]}: covariance "
                             f"changed (max |difference| {float(np.nanmax(dd)) if dd.size else 0!r}; bitwise comparison)")
                    if state.data.tobytes() != s0.tobytes() or cov.data.tobytes() != p0.tobytes():
                        fail("inputs-modified", f"prior {pname}, sensor {key}, outlier {label}: sensor_model modified its inputs")
    return {"n": n, "fails": fails, "sigs": sigs, "outcomes": ["discard", "py-discard-general"],
            "sample": {"kind": "py-discard", "definition": d["name"], "k": k, "priors": [p_ for p_, _ in priors], "calls": n}}


def eval_case(case):
    if case["kind"] == "py-multi":
        return eval_multi(case)
    if case["kind"] == "py-discard":
        return eval_discard(case)
    if case["kind"].startswith("cpp"):
        from fv.props import c06_cpp
        return c06_cpp.eval_case(case)
    m, k = case["m"], typed(case["k"], case.get("ktype"))
    fails, outcomes, sigs = [], set(), []
    n = 0

    def fail(key, what):
        fails.append({"key": f"{key}:{case['kind']}", "what": f"{case['kind']} m={m} k={k!r}{' (' + case['ktype'] + ')' if case.get('ktype') else ''}: {what}"})

    if case["kind"] == "py-direct":
        ekf = pyimpl.py_ekf(identity_def(1), {"innovation_filtering": k})
        for label, y, Sinv, nis in direct_inputs(m, k):
            exp = False if k is None else (nis > Fraction(threshold(k, m)))
            try:
                got = ekf.remove_innovation(np.array(y).reshape((m, 1)), np.array(Sinv))
                got = bool(got)
            except Exception as e:
                fail(f"raises:{type(e).__name__}", f"remove_innovation raised {type(e).__name__}: {str(e)[:150]} for {label}")
                break
            n += 1
            outcomes.add("discard" if got else "keep")
            sigs.append(f"pyd:{m}:{k}:{label}")
            if got != exp:
                fail("decision", f"remove_innovation={got} but NIS {float(nis)!r} > T {threshold(k or 0, m)!r} is {exp} ({label})")
        return {"n": n, "fails": fails[:3], "outcomes": [f"{o}:m{m}:k{k}" for o in outcomes] + list(outcomes) + (["typed-threshold"] if case.get("ktype") else []),
                "sigs": sigs, "sample": {"kind": case["kind"], "m": m, "k": k, "cases": [l for l, *_ in direct_inputs(m, k)][:8]}}

    # through the real filter: identity sensor, P = 0.5 I, Q = 0.5 I  =>  S = I exactly, K = 0.5 I
    d = identity_def(m)
    ekf = pyimpl.py_ekf(d, {"innovation_filtering": k})
    names = sorted(d["state"])
    T = threshold(k if k is not None else 5.0, m)
    r = sqrt(T)
    zs = [("sqrtT-", nextafter(r, -inf)), ("sqrtT", r), ("sqrtT+", nextafter(r, inf)), ("sqrtT--", nextafter(nextafter(r, -inf), -inf)),
          ("sqrtT++", nextafter(nextafter(r, inf), inf)), ("half", r / 2), ("double", 2 * r), ("1e3", 1e3), ("zero", 0.0)]
    for label, z1 in zs:
        for pos in range(m):
            z = [z1 if i == pos else 0.0 for i in range(m)]
            nis = z1 * z1  # IEEE product; the only inexact operation on the path (S = 1, innovation = z - 0)
            exp = False if k is None else nis > threshold(k, m)
            state = ekf.State()
            cov = ekf.Covariance(**{s: 0.5 for s in names})
            reading = ekf.make_reading("s", **{f"r{s}": z[i] for i, s in enumerate(names)})
            s0, p0 = state.data.copy(), cov.data.copy()
            try:
                out = ekf.sensor_model(state, cov, sensor_key="s", sensor_reading=reading)
            except Exception as e:
                fail(f"raises:{type(e).__name__}", f"sensor_model raised {type(e).__name__}: {str(e)[:150]} for z={z}")
                break
            n += 1
            sigs.append(f"pyf:{m}:{k}:{label}:{pos}")
            unchanged = np.array_equal(out.state.data, s0) and np.array_equal(out.covariance.data, p0)
            updated = pyimpl.close(out.state.data[pos, 0], 0.5 * z1, 1e-12) and pyimpl.close(out.covariance.data[pos, pos], 0.25, 1e-12)
            if z1 == 0.0:
                got = False if pyimpl.close(out.covariance.data[pos, pos], 0.25, 1e-12) else True
            elif unchanged:
                got = True
            elif updated:
                got = False
            else:
                fail("neither-kept-nor-discarded", f"z={z}: result is neither the input nor the Kalman update: "
                     f"{out.state.data.ravel().tolist()} {out.covariance.data.tolist()}")
                continue
            outcomes.add("discard" if got else "keep")
            if got != exp:
                fail("decision", f"z={z} ({label}): discarded={got}, but NIS={nis!r} > T={threshold(k or 0, m)!r} is {exp}")
            if not (np.array_equal(state.data, s0) and np.array_equal(cov.data, p0)):
                fail("inputs-modified", f"z={z}: sensor_model modified its input state/covariance")
            gi = ekf.innovations.get("s")
            if gi is None or [float(v) for v in gi.ravel()] != z:
                fail("innovation-not-recorded", f"z={z} discarded={got}: recorded innovation {None if gi is None else gi.ravel().tolist()}")
    return {"n": n, "fails": fails[:4], "outcomes": [f"{o}:m{m}:k{k}" for o in outcomes] + list(outcomes) + (["typed-threshold"] if case.get("ktype") else []), "sigs": sigs,
            "sample": {"kind": case["kind"], "m": m, "k": k, "boundary_readings": [z for _, z in zs[:3]]}}


REQUIRED_OUTCOMES = (["keep", "discard", "cpp-helper-ran", "cpp-filter-ran", "py-multi-sensor", "py-discard-general", "cpp-discard-general", "typed-threshold"] + [f"{o}:helper:m{m}:k{k}" for o in ("keep", "discard") for m in MS for k in KS]
                     + [f"{o}:cppf:m{m}:k5.0" for o in ("keep", "discard") for m in MS] + [f"keep:cppf:m{m}:kNone" for m in MS] + [f"keep:cppf:m{m}:k0.0" for m in MS] + [f"discard:m{m}:k{k}" for m in MS for k in KS] + [f"keep:m{m}:k{k}" for m in MS for k in KS + [None]])
