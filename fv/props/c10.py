"""C10 - managed filter moves through time in bounded, correctly directed steps (Python and C++ runtimes)."""
from __future__ import annotations

from types import SimpleNamespace

from fv import explore
from fv.claims import CLAIMS

ID = "C10"
LEVEL = "model_checking"
TECHNIQUE = CLAIMS[ID]["technique"]
RULE = (
    "explicit-state search of the held-time graph of the real ManagedFilter (Python runtime.py, and ManagedFilter.h "
    "compiled against recording Impl types for the Tag combinations): state = held time; for every maximum step h and "
    "start time t0 the grid is t0 + r*h for r in {0, +-2^-30, +-0.5, +-(1-2^-20), +-1, +-(1+2^-20), +-2, +-2.5, +-3, +-7.3} "
    "plus t0 +- 5e-10 s and +- 2e-9 s; transitions = every tick with one reading at grid time a and output at grid time b "
    "from every reachable held time (complete transition relation: |grid|^3 ticks, two moves each), executed through real "
    "tick calls on a recording stand-in filter. Invariant per move: no step if the times coincide, every step points in "
    "the direction of travel, |step| <= h + 1e-9, |sum - difference| <= 1e-9. distinct = distinct (runtime, h, from, to) "
    "moves; non-trivial = moves with from != to."
    " The C++ runtime is explored for all four control x calibration instantiations in both tiers (quick: two of them on a reduced step / start-time menu)."
    " The Python stand-in carries a real formak Config (for three step sizes with every field away from its default)."
    " Long moves: for max steps of 1/3 us and 1/30000 s (not whole numbers of nanoseconds) ticks that travel 1200, 2500.5 and 30011.25 "
    "steps (thorough: up to 300000.75) away from the start time and back, forward and backward, from both start times; same invariant (C++ runtime: the 1200- and 2500.5-step moves, quick two instantiations, thorough all four)."
)
ASSUMPTIONS = [
    "times of moderate magnitude (|t| <= 1000 + 8h) so that 1e-9 s exceeds the spacing of doubles",
    "the wrapped filter is a recording stand-in (duck-typed in Python, template Impl in C++): the runtime only forwards to it",
    "no particular split of the interval is required - only the stated invariant",
]
HS_QUICK = [0.1, 0.05, 0.25]
HS_ALL = [0.1, 0.05, 0.01, 0.25, 0.3, 1.0, 1.0 / 30.0]
T0_QUICK = [0.0, 10.0]
T0_ALL = [0.0, 10.0, -3.0, 1000.0]
LONG_HS = [1.0 / 3000000.0, 1.0 / 30000.0]
LONG_NS = [1200, 2500.5, 30011.25]
LONG_NS_THOROUGH = [100003, 300000.75, 999.999]
RS = [0.0, 2.0 ** -30, 0.5, 1 - 2.0 ** -20, 1.0, 1 + 2.0 ** -20, 2.0, 2.5, 3.0, 7.3]
TOL = 1e-9


def grid(h, t0):
    g = {t0}
    for r in RS:
        g.add(t0 + r * h)
        g.add(t0 - r * h)
    for e in (5e-10, 2e-9):
        g.add(t0 + e)
        g.add(t0 - e)
    return sorted(g)


def check_move(frm, to, steps, h):
    """the property's invariant for one move; returns list of (key, text)"""
    out = []
    diff = to - frm
    if diff == 0.0:
        if steps:
            out.append(("step-when-times-coincide", f"{len(steps)} step(s) {steps[:4]} taken from {frm!r} to the same time"))
        return out
    sgn = 1.0 if diff > 0 else -1.0
    for s in steps:
        if not (s * sgn > 0):
            out.append(("step-against-direction", f"step {s!r} while moving {frm!r} -> {to!r} (steps {steps[:6]})"))
            break
    for s in steps:
        if abs(s) > h + TOL:
            out.append(("step-longer-than-max", f"step {s!r} exceeds max step {h} moving {frm!r} -> {to!r} (steps {steps[:6]})"))
            break
    tot = sum(steps)
    if abs(tot - diff) > TOL:
        out.append(("steps-do-not-sum", f"steps sum to {tot!r}, time difference {diff!r} moving {frm!r} -> {to!r} ({len(steps)} steps, first {steps[:4]})"))
    return out


def classify(frm, to, steps, h):
    tags = []
    d = to - frm
    if d == 0:
        tags.append("zero")
    else:
        tags.append("forward" if d > 0 else "backward")
        q = abs(d) / h
        if abs(q - round(q)) < 1e-12 and round(q) >= 1:
            tags.append("exact-multiple")
        elif q > 1:
            tags.append("non-multiple")
        if len(steps) >= 2:
            tags.append("multi-step")
        if abs(d) < 1e-9:
            tags.append("sub-resolution")
    return tags


CONFIG_STYLE = ["default"]


class Recorder:
    """duck-typed filter: logs every call, returns its inputs"""

    def __init__(self, h, control_size=0):
        # a REAL Config, like a compiled filter carries; which of the other fields are away from their defaults is decided per step
        # size (the step logic may read nothing but max_dt_sec from it)
        from formak import python as fpy
        if CONFIG_STYLE[0] == "all-non-default":
            self.config = fpy.Config(max_dt_sec=h, extra_validation=True, innovation_filtering=None, common_subexpression_elimination=False,
                                     python_modules=("numpy", "math"))
        else:
            self.config = fpy.Config(max_dt_sec=h)
        self.control_size = control_size
        self.log = []

    def process_model(self, dt, state, covariance, control=None):
        self.log.append(("P", dt))
        from formak.python import StateAndCovariance
        return StateAndCovariance(state, covariance)

    def sensor_model(self, state, covariance, *, sensor_key, sensor_reading):
        self.log.append(("S", sensor_key))
        from formak.python import StateAndCovariance
        return StateAndCovariance(state, covariance)

    def make_reading(self, key, *, data=None, **kwargs):
        return ("R", key)


def py_tick_moves(h, held, a, b):
    """one real tick from held time `held` with a reading at a and output at b -> (steps held->a, steps a->b, new held)"""
    from formak import runtime

    rec = Recorder(h)
    mf = runtime.ManagedFilter(rec, held, "x", "P")
    mf.tick(b, readings=[runtime.StampedReading(a, "k", _data="z")])
    i = rec.log.index(("S", "k"))
    s1 = [d for t, d in rec.log[:i]]
    s2 = [d for t, d in rec.log[i + 1:]]
    return s1, s2, mf.current_time


def cases(tier, seed):
    # the Python runtime is cheap: both tiers explore every max step and every start time (incl. 1000 s, where a relative
    # tolerance on times would exceed the 1e-9 s resolution of the property)
    for h in HS_ALL:
        for t0 in T0_ALL + ([65536.0] if tier == "thorough" else []):
            yield {"runtime": "py", "h": h, "t0": t0}
    for h in HS_ALL[:3]:
        yield {"runtime": "py", "h": h, "t0": T0_ALL[1], "config": "all-non-default"}
    # long moves with a maximum step that is not a whole number of nanoseconds (1/3 us, 1/30000 s): thousands of whole steps, so a
    # step count taken from rounded or integer-unit times drifts by a whole step (wave-11 seed C10k) - the grid above never
    # asks for more than 8 steps
    for h in LONG_HS:
        for t0 in T0_QUICK:
            yield {"runtime": "py", "h": h, "t0": t0, "long": LONG_NS if tier == "quick" else LONG_NS + LONG_NS_THOROUGH}
    from fv.props import c10_cpp
    yield from c10_cpp.cases(tier, seed)


def eval_case(case):
    if case["runtime"] == "cpp":
        from fv.props import c10_cpp
        return c10_cpp.eval_case(case)
    h, t0 = case["h"], case["t0"]
    CONFIG_STYLE[0] = case.get("config", "default")
    if "tick" in case:  # replay one tick
        held, a, b = case["tick"]
        s1, s2, new = py_tick_moves(h, held, a, b)
        fails = [{"key": f"{k}:py", "what": f"py h={h}: {w}"} for k, w in check_move(held, a, s1, h) + check_move(a, b, s2, h)]
        if new != a:
            fails.append({"key": "held-time:py", "what": f"held time after tick is {new!r}, last reading at {a!r}"})
        return {"n": 1, "fails": fails}
    if "long" in case:
        fails, n, sigs = [], 0, []
        for N in case["long"]:
            for sgn in (1.0, -1.0):
                a = t0 + sgn * N * h
                s1, s2, new = py_tick_moves(h, t0, a, t0)  # there and back again in one tick
                n += 2
                sigs += [f"py:{h}:{t0!r}:{a!r}", f"py:{h}:{a!r}:{t0!r}"]
                bad = check_move(t0, a, s1, h) + check_move(a, t0, s2, h)
                if new != a:
                    bad.append(("held-time", f"held time after tick is {new!r}, last reading at {a!r}"))
                for k, w in bad:
                    if not any(f["key"] == f"{k}:py-long" for f in fails):
                        fails.append({"key": f"{k}:py-long", "what": f"py h={h} ({N} steps): {w}", "replay_case": dict(case, tick=[t0, a, t0])})
        return {"n": n, "fails": fails, "sigs": sigs, "counters": {"transitions": n // 2, "moves_checked": n},
                "outcomes": ["py:long-move"], "sample": {"runtime": "py", "h": h, "t0": t0, "long_moves_in_steps": case["long"]}}
    g = grid(h, t0)
    evs = [(a, b) for a in g for b in g]
    outcomes = set()
    moves = set()

    def step(held, ev):
        s1, s2, new = py_tick_moves(h, held, ev[0], ev[1])
        return new, (s1, s2)

    def check(held, ev, new, info, hist):
        if new is None:
            return [(f"tick-raises:{type(info).__name__}:py", f"py h={h}: tick from {held!r} reading@{ev[0]!r} output@{ev[1]!r} raised {info!r}")]
        s1, s2 = info
        bad = [(f"{k}:py", f"py h={h}: {w}") for k, w in check_move(held, ev[0], s1, h) + check_move(ev[0], ev[1], s2, h)]
        if new != ev[0]:
            bad.append(("held-time:py", f"py h={h}: held time after tick is {new!r}, last reading at {ev[0]!r}"))
        for f_, t_, s_ in ((held, ev[0], s1), (ev[0], ev[1], s2)):
            outcomes.update(classify(f_, t_, s_, h))
            moves.add((f_, t_))
        return bad

    stt = explore.bfs([(t0, "t0")], lambda s: evs, step, check, lambda s: s, 2)
    fails = []
    for f in stt.fails:
        held = f["history"][-2][0] if len(f["history"]) > 2 else t0
        a, b = f["history"][-1]
        fails.append({"key": f["key"], "what": f["what"], "replay_case": dict(case, tick=[held, a, b])})
    nontriv = sum(1 for f_, t_ in moves if f_ != t_)
    return {"n": stt.transitions, "fails": fails, "sigs": [f"py:{h}:{f_!r}:{t_!r}" for f_, t_ in moves if f_ != t_],
            "counters": {"states": stt.states, "transitions": stt.transitions, "moves_checked": 2 * stt.transitions},
            "outcomes": [f"{o}:h{h}" for o in outcomes] + [f"py:{o}" for o in outcomes],
            "sample": {"runtime": "py", "h": h, "t0": t0, "grid": g[:6], "tick": [t0, g[3], g[-2]],
                       "steps": py_tick_moves(h, t0, g[3], g[-2])[:2]}}


def finalize(agg, tier):
    c = agg["counters"]
    return {"states": c.get("states", 0), "transitions": c.get("transitions", 0),
            "traces_validated_against_impl": c.get("transitions", 0),
            "explanation": "every transition is a real tick() call on the real runtime with a recording stand-in filter"}


_KINDS = ["forward", "backward", "zero", "exact-multiple", "non-multiple", "multi-step"]
REQUIRED_OUTCOMES = ([f"{o}:h{h}" for o in _KINDS for h in HS_QUICK] + [f"py:{o}" for o in _KINDS]
                     + [f"cpp:{o}" for o in _KINDS] + ["cpp-combo0", "cpp-combo3", "py:long-move"])
