"""C06, C++ side: removeInnovation<m> from innovation_filtering.h and the generated C++ sensor_model."""
from __future__ import annotations

import os
import subprocess
from fractions import Fraction
from math import inf, nextafter, sqrt

from fv import core, cppharness


def cases(tier, seed):
    from fv.props import c06
    yield {"kind": "cpp-helper"}
    for m in c06.MS:
        for k in c06.KS + c06.KS_EXTRA + [None, 0.0]:
            if tier == "quick" and m in (3,) and k in (1.0, 3.0, 123.456789012345):
                continue
            yield {"kind": "cpp-filter", "m": m, "k": k}


def eval_helper(case):
    from fv.props import c06
    fails, outcomes, sigs = [], set(), []
    lines, expect = [], []
    for m in c06.MS + [8]:
        for k in c06.KS + c06.KS_EXTRA:
            for label, y, Sinv, nis in c06.direct_inputs(m, k):
                lines.append(" ".join([str(m), repr(k)] + [repr(v) for v in y] + [repr(v) for r in Sinv for v in r]))
                expect.append((m, k, label, nis > Fraction(c06.threshold(k, m)), nis))
    with cppharness.Scratch() as sc:
        exe = os.path.join(sc.dir, "ri")
        cmd = [cppharness.CXX] + cppharness.BASE_FLAGS + cppharness.include_flags() + [
            os.path.join(core.VERIF, "cppdrivers", "remove_innovation.cpp"), "-o", exe]
        p = subprocess.run(cmd, capture_output=True, text=True)
        if p.returncode != 0:
            return {"n": 1, "fails": [{"key": "does-not-compile:cpp-helper", "what": cppharness.first_error(p.stderr)}]}
        rc, out, err = cppharness.run(exe, "\n".join(lines) + "\n")
    got = out.split()
    if rc != 0 or len(got) != len(expect):
        return {"n": 1, "fails": [{"key": "driver:cpp-helper", "what": f"exit {rc}, {len(got)} answers for {len(expect)} cases: {err[:200]}"}]}
    for g, (m, k, label, exp, nis) in zip(got, expect):
        g = g == "1"
        outcomes.add("discard" if g else "keep")
        outcomes.add(f"{'discard' if g else 'keep'}:helper:m{m}:k{k}")
        sigs.append(f"cpph:{m}:{k}:{label}")
        if g != exp and not any(f["key"] == "decision:cpp-helper" for f in fails):
            fails.append({"key": "decision:cpp-helper", "what": f"removeInnovation<{m}>(k={k}) = {g} but NIS {float(nis)!r} > "
                          f"{c06.threshold(k, m)!r} is {exp} ({label})"})
    return {"n": len(expect), "fails": fails, "outcomes": sorted(outcomes) + ["cpp-helper-ran"], "sigs": sigs,
            "sample": {"kind": "cpp-helper", "cases": len(expect), "example": lines[7]}}


def eval_filter(case):
    from fv.props import c06
    m, k = case["m"], case["k"]
    d = c06.identity_def(m)
    names = sorted(d["state"])
    disabled = k is None or k == 0.0
    T = c06.threshold(5.0 if disabled else k, m)
    r = sqrt(T)
    zs = [("sqrtT-", nextafter(r, -inf)), ("sqrtT", r), ("sqrtT+", nextafter(r, inf)), ("sqrtT--", nextafter(nextafter(r, -inf), -inf)),
          ("sqrtT++", nextafter(nextafter(r, inf), inf)), ("half", r / 2), ("double", 2 * r), ("1e3", 1e3)]
    pts, meta = [], []
    for label, z1 in zs:
        for pos in range(m):
            z = [z1 if i == pos else 0.0 for i in range(m)]
            pts.append({"dt": 0.1, "x": {s: 0.0 for s in names}, "u": {},
                        "P": [[0.5 if i == j else 0.0 for j in range(m)] for i in range(m)],
                        "z": {"s": {f"r{s}": z[i] for i, s in enumerate(names)}}})
            meta.append((label, pos, z1, z))
    res = cppharness.build_and_run_ekf(d, {"innovation_filtering": k}, pts)
    fails, outcomes, sigs = [], set(), []

    def fail(key, what):
        if not any(f["key"].startswith(key) for f in fails):
            fails.append({"key": f"{key}:cpp-filter", "what": f"cpp-filter m={m} k={k}: {what}"})

    if not res["ok"]:
        fail(f"{res['stage']}-failed", res["error"])
        return {"n": 1, "fails": fails}
    for p, (label, pos, z1, z) in enumerate(meta):
        got = res["results"].get(p, {})
        nis = z1 * z1
        exp = False if disabled else nis > c06.threshold(k, m)
        ux = [got.get(("ux", "s", s)) for s in names]
        uP = [[got.get(("uP", "s", str(i), str(j))) for j in range(m)] for i in range(m)]
        unchanged = all(v == 0.0 for v in ux) and all(uP[i][j] == (0.5 if i == j else 0.0) for i in range(m) for j in range(m))
        updated = ux[pos] is not None and abs(ux[pos] - 0.5 * z1) <= 1e-12 * max(1, abs(z1)) and abs(uP[pos][pos] - 0.25) <= 1e-12
        sigs.append(f"cppf:{m}:{k}:{label}:{pos}")
        if unchanged:
            dec = True
        elif updated:
            dec = False
        else:
            fail("neither-kept-nor-discarded", f"z={z}: result {ux} {uP}")
            continue
        outcomes.add("discard" if dec else "keep")
        if dec != exp:
            fail("decision", f"z={z} ({label}): discarded={dec}, but NIS={nis!r} > T={c06.threshold(k or 0.0, m)!r} is {exp}"
                 + (" [filtering disabled]" if disabled else ""))
        inn = [got.get(("inn", "s", str(i))) for i in range(m)]
        if got.get(("innset", "s")) != 1 or inn != z:
            fail("innovation-not-recorded", f"z={z} discarded={dec}: stored innovation {inn}")
    return {"n": len(meta), "fails": fails, "sigs": sigs,
            "outcomes": sorted(outcomes) + [f"{o}:cppf:m{m}:k{k}" for o in outcomes] + ["cpp-filter-ran"],
            "sample": {"kind": "cpp-filter", "m": m, "k": k, "readings": [zz for _, _, _, zz in meta[:3]]}}


def eval_case(case):
    return eval_helper(case) if case["kind"] == "cpp-helper" else eval_filter(case)
