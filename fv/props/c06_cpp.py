"""C06, C++ side: removeInnovation<m> from innovation_filtering.h and the generated C++ sensor_model."""
from __future__ import annotations

import os
import subprocess
from fractions import Fraction
from math import inf, nextafter, sqrt

from fv import core, cppharness


def cases(tier, seed):
    from fv.props import c06
    yield {"kind": "cpp-helper"}
    for m in c06.MS:
        for k in c06.KS + c06.KS_EXTRA + [None, 0.0]:
            if tier == "quick" and m in (3,) and k in (1.0, 3.0, 123.456789012345):
                continue
            yield {"kind": "cpp-filter", "m": m, "k": k}
    for k, kt in c06.KS_TYPED[:3]:
        yield {"kind": "cpp-filter", "m": 2, "k": k, "ktype": kt}
    for shape, sens in (((2, 1, 1), (1, 2)), ((3, 1, 0), (2, 1, 3))):
        yield {"kind": "cpp-discard", "shape": list(shape), "sens": list(sens), "k": 5.0, "m": 0, "seed": seed}


def eval_helper(case):
    from fv.props import c06
    fails, outcomes, sigs = [], set(), []
    lines, expect = [], []
    for m in c06.MS + [8]:
        for k in c06.KS + c06.KS_EXTRA:
            for label, y, Sinv, nis in c06.direct_inputs(m, k):
                lines.append(" ".join([str(m), repr(k)] + [repr(v) for v in y] + [repr(v) for r in Sinv for v in r]))
                expect.append((m, k, label, nis > Fraction(c06.threshold(k, m)), nis))
    with cppharness.Scratch() as sc:
        exe = os.path.join(sc.dir, "ri")
        cmd = [cppharness.CXX] + cppharness.BASE_FLAGS + cppharness.include_flags() + [
            os.path.join(core.VERIF, "cppdrivers", "remove_innovation.cpp"), "-o", exe]
        p = subprocess.run(cmd, capture_output=True, text=True)
        if p.returncode != 0:
            return {"n": 1, "fails": [{"key": "does-not-compile:cpp-helper", "what": cppharness.first_error(p.stderr)}]}
        rc, out, err = cppharness.run(exe, "\n".join(lines) + "\n")
    got = out.split()
    if rc != 0 or len(got) != len(expect):
        return {"n": 1, "fails": [{"key": "driver:cpp-helper", "what": f"exit {rc}, {len(got)} answers for {len(expect)} cases: {err[:200]}"}]}
    for g, (m, k, label, exp, nis) in zip(got, expect):
        g = g == "1"
        outcomes.add("discard" if g else "keep")
        outcomes.add(f"{'discard' if g else 'keep'}:helper:m{m}:k{k}")
        sigs.append(f"cpph:{m}:{k}:{label}")
        if g != exp and not any(f["key"] == "decision:cpp-helper" for f in fails):
            fails.append({"key": "decision:cpp-helper", "what": f"removeInnovation<{m}>(k={k}) = {g} but NIS {float(nis)!r} > "
                          f"{c06.threshold(k, m)!r} is {exp} ({label})"})
    return {"n": len(expect), "fails": fails, "outcomes": sorted(outcomes) + ["cpp-helper-ran"], "sigs": sigs,
            "sample": {"kind": "cpp-helper", "cases": len(expect), "example": lines[7]}}


def eval_filter(case):
    from fv.props import c06
    m, k = case["m"], c06.typed(case["k"], case.get("ktype"))
    d = c06.identity_def(m)
    names = sorted(d["state"])
    disabled = k is None or k == 0.0
    T = c06.threshold(5.0 if disabled else k, m)
    r = sqrt(T)
    zs = [("sqrtT-", nextafter(r, -inf)), ("sqrtT", r), ("sqrtT+", nextafter(r, inf)), ("sqrtT--", nextafter(nextafter(r, -inf), -inf)),
          ("sqrtT++", nextafter(nextafter(r, inf), inf)), ("half", r / 2), ("double", 2 * r), ("1e3", 1e3)]
    pts, meta = [], []
    for label, z1 in zs:
        for pos in range(m):
            z = [z1 if i == pos else 0.0 for i in range(m)]
            pts.append({"dt": 0.1, "x": {s: 0.0 for s in names}, "u": {},
                        "P": [[0.5 if i == j else 0.0 for j in range(m)] for i in range(m)],
                        "z": {"s": {f"r{s}": z[i] for i, s in enumerate(names)}}})
            meta.append((label, pos, z1, z))
    res = cppharness.build_and_run_ekf(d, {"innovation_filtering": k}, pts)
    fails, outcomes, sigs = [], set(), []

    def fail(key, what):
        if not any(f["key"].startswith(key) for f in fails):
            fails.append({"key": f"{key}:cpp-filter", "what": f"cpp-filter m={m} k={k}: {what}"})

    if not res["ok"]:
        fail(f"{res['stage']}-failed", res["error"])
        return {"n": 1, "fails": fails}
    for p, (label, pos, z1, z) in enumerate(meta):
        got = res["results"].get(p, {})
        nis = z1 * z1
        exp = False if disabled else nis > c06.threshold(k, m)
        ux = [got.get(("ux", "s", s)) for s in names]
        uP = [[got.get(("uP", "s", str(i), str(j))) for j in range(m)] for i in range(m)]
        unchanged = all(v == 0.0 for v in ux) and all(uP[i][j] == (0.5 if i == j else 0.0) for i in range(m) for j in range(m))
        updated = ux[pos] is not None and abs(ux[pos] - 0.5 * z1) <= 1e-12 * max(1, abs(z1)) and abs(uP[pos][pos] - 0.25) <= 1e-12
        sigs.append(f"cppf:{m}:{k}:{label}:{pos}")
        if unchanged:
            dec = True
        elif updated:
            dec = False
        else:
            fail("neither-kept-nor-discarded", f"z={z}: result {ux} {uP}")
            continue
        outcomes.add("discard" if dec else "keep")
        if dec != exp:
            fail("decision", f"z={z} ({label}): discarded={dec}, but NIS={nis!r} > T={c06.threshold(k or 0.0, m)!r} is {exp}"
                 + (" [filtering disabled]" if disabled else ""))
        inn = [got.get(("inn", "s", str(i))) for i in range(m)]
        if got.get(("innset", "s")) != 1 or inn != z:
            fail("innovation-not-recorded", f"z={z} discarded={dec}: stored innovation {inn}")
    return {"n": len(meta), "fails": fails, "sigs": sigs,
            "outcomes": sorted(outcomes) + [f"{o}:cppf:m{m}:k{k}" for o in outcomes] + ["cpp-filter-ran"],
            "sample": {"kind": "cpp-filter", "m": m, "k": k, "readings": [zz for _, _, _, zz in meta[:3]]}}


def eval_discard(case):
    """generated C++ filter, general definition: a discarded reading returns state and covariance bit for bit"""
    import struct
    from fv import space
    from fv.ekfref import RefEKF, cov_menu
    from fv import refmodel as R
    from fv.props import c06
    n_, k_, c_ = case["shape"]
    k = case["k"]
    d = space.bind_def(n_, k_, c_, order=3, sensors_shape=tuple(case["sens"]))
    ref = RefEKF(d)
    ns = len(ref.st)
    dense = [list(map(float, r)) for r in cov_menu(ns, "quick")[2][1]]
    ulp = [list(r) for r in dense]
    ulp[0][ns - 1] = nextafter(ulp[0][ns - 1], inf)
    env = next(iter(space.some_points(ref.st + ref.ct, 1, case["seed"])))
    full = ref.env(env)
    hx = {key: [float(v) for v in ref.hx(key, full)] for key in ref.h}
    pts, meta = [], []
    for pname, P in (("dense", dense), ("dense+1ulp", ulp)):
        for key in sorted(ref.h):
            names = ref.readings(key)
            m = len(names)
            T = c06.threshold(k, m)
            for label, off in [("1e3", 1e3), ("-1e6", -1e6)] + ([("+inf", inf), ("-inf", -inf)] if m == 1 else []):
                for pos in range(m):
                    z = [h + (off if i == pos else 0.0) for i, h in enumerate(hx[key])]
                    if off not in (inf, -inf):
                        nis = float(ref.update(key, full, R.M(P), [R.mp.mpf(v) for v in z])[4])
                        if not nis > 100 * T:
                            continue
                    zall = {kk: dict(zip(ref.readings(kk), hx[kk])) for kk in ref.h}
                    zall[key] = dict(zip(names, z))
                    pts.append({"dt": 0.125, "x": {s_: env[s_] for s_ in ref.st}, "u": {s_: env[s_] for s_ in ref.ct}, "P": P, "z": zall})
                    meta.append((pname, key, label, names[pos], P))
    res = cppharness.build_and_run_ekf(d, {"innovation_filtering": k}, pts)
    fails = []

    def fail(key, what):
        if not any(f["key"].startswith(key) for f in fails):
            fails.append({"key": f"{key}:cpp-discard", "what": f"{d['name']} k={k}: {what}"})

    if not res["ok"]:
        fail(f"{res['stage']}-failed", res["error"])
        return {"n": 1, "fails": fails}
    bits = lambda v: struct.pack("<d", float(v)) if v is not None else None
    for p, (pname, key, label, rname, P) in enumerate(meta):
        got = res["results"].get(p, {})
        ux = [got.get(("ux", key, s_)) for s_ in ref.st]
        uP = [[got.get(("uP", key, str(i), str(j))) for j in range(ns)] for i in range(ns)]
        if [bits(v) for v in ux] != [bits(env[s_]) for s_ in ref.st]:
            fail("discard-changes-state", f"prior {pname}, sensor {key}, outlier {label} in reading {rname}: state "
                 f"{[env[s_] for s_ in ref.st]} -> {ux}")
        if [[bits(v) for v in r] for r in uP] != [[bits(v) for v in r] for r in P]:
            fail("discard-changes-covariance", f"prior {pname}, sensor {key}, outlier {label} in reading {rname}: covariance {P} -> {uP} "
                 f"(bitwise comparison)")
    return {"n": len(meta), "fails": fails, "sigs": [f"cppdisc:{case['shape']}:{k}:{i}" for i in range(len(meta))],
            "outcomes": ["discard", "cpp-discard-general"],
            "sample": {"kind": "cpp-discard", "definition": d["name"], "k": k, "calls": len(meta)}}


def eval_case(case):
    if case["kind"] == "cpp-discard":
        return eval_discard(case)
    return eval_helper(case) if case["kind"] == "cpp-helper" else eval_filter(case)
