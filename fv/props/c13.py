"""C13 - values are bound by name, never by position or spelling."""
from __future__ import annotations

import itertools

import numpy as np
import sympy

from fv import cppharness, pyimpl, space
from fv import refmodel as R
from fv.claims import CLAIMS
from fv.ekfref import RefEKF

ID = "C13"
LEVEL = "exploration"
TECHNIQUE = CLAIMS[ID]["technique"]
POOL = ["A", "B", "Zz", "_b", "a", "a1", "a10", "a2", "a_", "aa"]  # ASCII order: upper < '_' < lower; a10 < a2; shared prefixes
KEYPOOL = ["alt", "baro", "gps", "imu"]
READPOOL = ["R3", "_r", "r1", "r10", "r2"]
RULE = (
    "construction half: for every name list of size 0..3 drawn from the pool " + str(POOL) + " (all 176 subsets), "
    "named_vector / named_covariance / from_dict (Symbol and str keys) / from_data (right and wrong shapes) / make_reading "
    "are called with every subset of keywords in every keyword order: each value must sit at the index of its own name, "
    "the rest default (0; unit variance), unknown names and wrong shapes must raise. Metamorphic half: base programs "
    "(BIND shapes with rectangular sensors) x every renaming realising every permutation of the sort order of states "
    "(<= 6), controls, calibrations, reading names and sensor keys (2 each) x declaration orders/containers; the twin is "
    "run on the renamed inputs and every named output of model / Jacobians / process_model / sensor_model (Python, and "
    "the compiled C++ for a subset) must equal the base program's output under the renaming (1e-12) and the reference. "
    "distinct = distinct (name list, keyword order) constructions + (base, renaming) twins; non-trivial = >= 2 names."
    " Accept / refuse decisions with Config(extra_validation=True) are compared between a definition and its renamed / re-ordered / re-containered twins (3 definitions incl. a cross-coupled nonlinear one)."
    " Vectors built from the renamed twin's names (state, covariance, control, reading) and readings of another sensor of equal size must be refused by the base model / filter; partially named vectors are built while freed buffers of the same size hold non-zero values and must show the documented defaults."
)
ASSUMPTIONS = [
    "names are identifier-safe and avoid what the generator reserves in C++ (state, control, dt, data, rows, ...; _tN)",
    "multi-reading sensors use string reading names (Python cannot sort bare Symbols of one sensor dict)",
]


def cases(tier, seed):
    subsets = [()]
    for r in (1, 2, 3):
        subsets += list(itertools.combinations(POOL, r))
    chunk = 16
    for i in range(0, len(subsets), chunk):
        yield {"kind": "construct", "arglists": [list(s) for s in subsets[i:i + chunk]]}
    bases = [space.bind_def(3, 2, 2, order=1, sensors_shape=(2, 1)), space.bind_def(2, 1, 1, order=3, sensors_shape=(1, 2)),
             space.bind_def(3, 0, 1, order=2, sensors_shape=(2,)), space.bind_def(2, 2, 0, order=0, sensors_shape=(1, 1))]
    if tier == "thorough":
        bases += [space.bind_def(n, k, c, order=i, sensors_shape=s) for i, (n, k, c, s) in enumerate(
            [(3, 1, 2, (3,)), (3, 2, 1, (1, 2, 1)), (2, 2, 2, (2, 2)), (3, 1, 1, (1,)), (1, 1, 1, (2,)), (2, 0, 0, (3, 1)),
             (3, 2, 0, (2, 1)), (1, 2, 2, (1, 1))])]
    for b_ in (coupled_def(), bases[1], bases[3]):
        yield {"kind": "validate-twin", "base": b_, "count": 6 if tier == "quick" else 24}
    for bi, base in enumerate(bases):
        for ri, ren in enumerate(renamings(base)):
            yield {"kind": "twin", "base": base, "ren": ren, "cpp": (tier == "thorough" and ri % 2 == 0) or (bi < 2 and ri % 3 == 0),
                   "seed": seed, "assume": ri % 3 == 1}


def renamings(d):
    """renamings that realise every permutation of the sorted order within each symbol class (one class at a time,
    plus one combined renaming), with new names drawn from the pool so that case/digit/underscore ordering is exercised"""
    out = []
    st, ca, ct = space.def_symbols(d)
    pools = [POOL[i:] + POOL[:i] for i in range(len(POOL))]

    # states: every permutation; controls/calibrations take fresh disjoint names
    for pi, perm in enumerate(itertools.permutations(range(len(st)))):
        pool = pools[pi % len(pools)]
        tgt = sorted(pool[: len(st)])
        ren = {st[i]: tgt[perm[i]] for i in range(len(st))}
        rest = [p for p in pool if p not in tgt]
        for j, c in enumerate(ct + ca):
            ren[c] = rest[j]
        out.append(ren)
    for names in (ct, ca):
        if len(names) >= 2:
            for perm in itertools.permutations(range(len(names))):
                tgt = sorted(POOL[5: 5 + len(names)])
                ren = {names[i]: tgt[perm[i]] for i in range(len(names))}
                other = [p for p in POOL if p not in tgt]
                for j, s in enumerate(st + (ca if names is ct else ct)):
                    ren[s] = other[j]
                out.append(ren)
    # sensor keys and reading names
    keys = sorted(k for k, _ in d["sensors"])
    if len(keys) >= 2:
        for perm in itertools.permutations(range(len(keys))):
            tgt = sorted(KEYPOOL[: len(keys)])
            out.append({keys[i]: tgt[perm[i]] for i in range(len(keys))})
    else:
        out.append({keys[0]: "baro"})
    for key, rs in d["sensors"]:
        rn = sorted(r for r, _ in rs)
        if len(rn) >= 2:
            for perm in itertools.permutations(range(len(rn))):
                tgt = sorted(READPOOL[: len(rn)])
                ren = {rn[i]: tgt[perm[i]] for i in range(len(rn))}
                if len(ren) == len(set(ren.values())):
                    out.append(ren)
            break
    return out


# ------------------------------------------------------------------ construction half


def eval_construct(case):
    from formak import common
    fails, n, sigs = [], 0, []

    def fail(key, what):
        if not any(f["key"] == key for f in fails):
            fails.append({"key": key, "what": what})

    for names in case["arglists"]:
        syms = [sympy.Symbol(s) for s in names]
        V = common.named_vector("V", syms)
        Cv = common.named_covariance("C", syms)
        vals = {s: 1.5 + 0.25 * i for i, s in enumerate(names)}
        for r in range(len(names) + 1):
            for subset in itertools.combinations(names, r):
                for order in itertools.permutations(subset):
                    kw = {s: vals[s] for s in order}
                    n += 1
                    sigs.append(f"{names}:{order}")
                    try:
                        # freed buffers of the same sizes, full of non-zero values, are lying around when the vectors are built:
                        # entries that are not named must still come out as the documented defaults
                        g1, g2 = np.full((len(names), 1), 777.25), np.full((len(names), len(names)), -333.5)
                        del g1, g2
                        v = V(**kw)
                        c = Cv(**kw)
                        vd = V.from_dict({sympy.Symbol(k): x for k, x in kw.items()})
                        vs = V.from_dict(dict(kw))
                    except Exception as e:
                        fail("construct-raises", f"named vector {names} with keywords {list(order)} raised {e!r}")
                        continue
                    exp_v = [vals[s] if s in kw else 0.0 for s in names]
                    exp_c = [[(vals[s] if s in kw else 1.0) if i == j else 0.0 for j, _ in enumerate(names)] for i, s in enumerate(names)]
                    for obj, lab in ((v, "named_vector"), (vd, "from_dict(Symbol keys)"), (vs, "from_dict(str keys)")):
                        if obj.data.shape != (len(names), 1) or [float(x) for x in obj.data.ravel()] != exp_v:
                            fail("vector-binding", f"{lab} over {names} with {kw}: data {obj.data.ravel().tolist()}, expected {exp_v}")
                    if c.data.shape != (len(names), len(names)) or c.data.tolist() != exp_c:
                        fail("covariance-binding", f"named_covariance over {names} with {kw}: {c.data.tolist()}, expected {exp_c}")
        # unknown names refused
        frag = set()
        for nm in names:
            frag.update(nm[i:j] for i in range(len(nm)) for j in range(i + 1, len(nm) + 1))   # every substring of a declared name
            frag.add(nm + "x")
            frag.add(nm.swapcase())
        if len(names) >= 2:
            frag.update({", ".join(names[:2]), names[0] + names[1], names[0] + ","})
        frag.update({"q", "A_", "_data2", "data", "name", ""})
        for bad in sorted(frag):
            if bad in names or bad in ("_data",) or not bad.isidentifier():
                continue
            n += 1
            for cls, lab in ((V, "named_vector"), (Cv, "named_covariance")):
                try:
                    cls(**{bad: 1.0})
                    fail("unknown-name-accepted", f"{lab} over {names} accepted unknown keyword '{bad}'")
                except TypeError:
                    pass
                except Exception as e:
                    fail("unknown-name-wrong-error", f"{lab} over {names} raised {type(e).__name__} for unknown keyword '{bad}'")
        # from_data shapes
        k = len(names)
        good = np.arange(1.0, k + 1.0).reshape((k, 1))
        n += 1
        try:
            if V.from_data(good.copy()).data.tolist() != good.tolist():
                fail("from_data", f"from_data over {names} did not keep its data")
        except Exception as e:
            fail("from_data-raises", f"from_data with the right shape raised {e!r}")
        for shp in ((k + 1, 1), (1, k) if k != 1 else (1, 2), (k,), (k, 2)):
            try:
                V.from_data(np.zeros(shp))
                fail("wrong-shape-accepted", f"named vector over {names} accepted data of shape {shp}")
            except ValueError:
                pass
            except Exception as e:
                fail("wrong-shape-wrong-error", f"shape {shp}: {type(e).__name__}")
        for shp in ((k + 1, k + 1), (k, 1) if k != 1 else (1, 2), (k, k + 1)):
            try:
                Cv.from_data(np.zeros(shp))
                fail("wrong-shape-accepted", f"named covariance over {names} accepted data of shape {shp}")
            except ValueError:
                pass
            except Exception as e:
                fail("wrong-shape-wrong-error", f"covariance shape {shp}: {type(e).__name__}")
    # make_reading on a real compiled filter whose sensor's readings are the name list (every 4th list, sizes 1..3)
    from formak import python as fpy
    for names in [a for a in case["arglists"] if a][::4]:
        x = sympy.Symbol("x")
        try:
            ekf = fpy.compile_ekf(pyimpl.ui.Model(sympy.Symbol("dt"), {x}, set(), {x: x}), {}, {"s": {nm: x * (i + 1) for i, nm in enumerate(names)}},
                                  {"s": {nm: 0.5 for nm in names}})
        except Exception as e:
            fail("make_reading-setup", f"compile_ekf with readings {names} raised {e!r}"[:300])
            continue
        order = sorted(names)
        vals = {nm: 2.5 + 0.5 * i for i, nm in enumerate(names)}
        for r in range(len(names) + 1):
            for subset in itertools.permutations(names, r):
                n += 1
                try:
                    rd = ekf.make_reading("s", **{nm: vals[nm] for nm in subset})
                except Exception as e:
                    fail("make_reading-raises", f"make_reading('s', {list(subset)}) over readings {names} raised {e!r}"[:300])
                    continue
                exp = [vals[nm] if nm in subset else 0.0 for nm in order]
                if [float(v) for v in rd.data.ravel()] != exp:
                    fail("make_reading-binding", f"make_reading over {order} with {list(subset)}: data {rd.data.ravel().tolist()}, expected {exp}")
        good = np.arange(1.0, len(names) + 1.0).reshape((len(names), 1))
        try:
            if ekf.make_reading("s", data=good.copy()).data.tolist() != good.tolist():
                fail("make_reading-data", f"make_reading(data=...) over {order} did not keep its data")
        except Exception as e:
            fail("make_reading-data-raises", f"make_reading(data=right shape) raised {e!r}"[:200])
        for shp in ((len(names) + 1, 1), (len(names),), (1, len(names)) if len(names) > 1 else (1, 2)):
            try:
                ekf.make_reading("s", data=np.zeros(shp))
                fail("make_reading-wrong-shape-accepted", f"make_reading(data=shape {shp}) accepted for readings {order}")
            except ValueError:
                pass
            except Exception as e:
                fail("make_reading-wrong-shape-wrong-error", f"shape {shp}: {type(e).__name__}")
        for bad in (names[0][:-1] or "q", names[0] + "x", "q"):
            if bad in names or not bad.isidentifier():
                continue
            try:
                ekf.make_reading("s", **{bad: 1.0})
                fail("make_reading-unknown-name-accepted", f"make_reading over {order} accepted unknown reading '{bad}'")
            except TypeError:
                pass
            except Exception as e:
                fail("make_reading-unknown-name-wrong-error", f"'{bad}': {type(e).__name__}")
    return {"n": n, "fails": fails, "sigs": sigs, "outcomes": ["constructed"],
            "sample": {"kind": "construct", "arglists": case["arglists"][:3], "constructions": n}}


# ------------------------------------------------------------------ metamorphic half


def named_outputs_py(d, pts):
    """every named output of the Python implementation at the given points (list of dicts keyed by names)"""
    ekf = pyimpl.py_ekf(d, {"innovation_filtering": None})
    mdl = pyimpl.py_model(d)
    st, ca, ct = space.def_symbols(d)
    outs = []
    for pt in pts:
        o = {}
        state = ekf.State(**pt["x"])
        control = ekf.Control(**pt["u"])
        cov = ekf.Covariance.from_data(np.array(pt["P"], dtype=float))
        m = mdl.model(pt["dt"], mdl.State(**pt["x"]), mdl.Control(**pt["u"])) if ct else mdl.model(pt["dt"], mdl.State(**pt["x"]))
        for s, v in pyimpl.vec_by_name(m).items():
            o[("model", s)] = v
        G = ekf.process_jacobian(pt["dt"], state, control)
        V = ekf.control_jacobian(pt["dt"], state, control)
        pm = ekf.process_model(pt["dt"], state, cov, control)
        sn = pyimpl.names_of(ekf.State)
        cn = pyimpl.names_of(ekf.Control)
        for i, a in enumerate(sn):
            o[("px", a)] = float(pm.state.data[i, 0])
            for j, b in enumerate(sn):
                o[("G", a, b)] = float(G[i, j])
                o[("pP", a, b)] = float(pm.covariance.data[i, j])
            for j, b in enumerate(cn):
                o[("V", a, b)] = float(V[i, j])
        for key in ekf.sensor_models:
            sm = ekf.sensor_models[key]
            rn = pyimpl.names_of(sm.Reading)
            h = sm.model(state)
            H = ekf.sensor_jacobian(key, state)
            z = ekf.make_reading(key, **pt["z"][key])
            up = ekf.sensor_model(state, cov, sensor_key=key, sensor_reading=z)
            for i, r in enumerate(rn):
                o[("h", key, r)] = float(h.data[i, 0])
                for j, a in enumerate(sn):
                    o[("H", key, r, a)] = float(H[i, j])
            for i, a in enumerate(sn):
                o[("ux", key, a)] = float(up.state.data[i, 0])
                for j, b in enumerate(sn):
                    o[("uP", key, a, b)] = float(up.covariance.data[i, j])
        outs.append(o)
    return outs


def named_outputs_cpp(d, pts):
    res = cppharness.build_and_run_ekf(d, {"innovation_filtering": None}, pts)
    if not res["ok"]:
        return res, None
    st, ca, ct = space.def_symbols(d)
    rd = {k: sorted(r for r, _ in rs) for k, rs in d["sensors"]}
    outs = []
    for p in range(len(pts)):
        o = {}
        for key, v in res["results"].get(p, {}).items():
            t = key[0]
            if t in ("model", "px", "cmodel", "cpx", "pPd", "cpPd"):  # incl. values read through const references / named accessors
                o[(t, key[1])] = v
            elif t in ("G", "pP"):
                o[(t, st[int(key[1])], st[int(key[2])])] = v
            elif t == "V":
                o[(t, st[int(key[1])], ct[int(key[2])])] = v
            elif t == "h":
                o[(t, key[1], key[2])] = v
            elif t == "H":
                o[(t, key[1], rd[key[1]][int(key[2])], st[int(key[3])])] = v
            elif t == "ux":
                o[(t, key[1], key[2])] = v
            elif t == "uP":
                o[(t, key[1], st[int(key[2])], st[int(key[3])])] = v
        for s_ in st:
            for acc in ("pPd", "cpPd"):
                if (acc, s_) in o and ("pP", s_, s_) in o and o[(acc, s_)] != o[("pP", s_, s_)]:
                    o[("accessor-mismatch", acc, s_)] = float("nan")  # makes the comparison below fail with a telling key
        outs.append(o)
    return res, outs


def points_for(d, ren, seed):
    """points keyed by the BASE names; renamed copies for the twin"""
    st, ca, ct = space.def_symbols(d)
    n = len(st)
    pts = []
    for pi, env in enumerate(space.some_points(st + ct, 4, seed, dts=(0.125, -0.25))):
        P = [[(1.0 + 0.5 * i) if i == j else 0.0625 * (1 + i + 2 * j if i < j else 1 + j + 2 * i) for j in range(n)] for i in range(n)]
        pts.append({"dt": env["dt"], "x": {s: env[s] for s in st}, "u": {c: env[c] for c in ct}, "P": P,
                    "z": {k: {r: 0.5 + 0.25 * ri + 0.125 * pi for ri, (r, _) in enumerate(sorted(rs))} for k, rs in d["sensors"]}})
    return pts


def rename_point(pt, ren, base, twin):
    r = lambda n: ren.get(n, n)
    st_b = sorted(base["state"])
    st_t = sorted(twin["state"])
    Pn = {(a, b): pt["P"][i][j] for i, a in enumerate(st_b) for j, b in enumerate(st_b)}
    inv = {r(a): a for a in st_b}
    P = [[Pn[(inv[a], inv[b])] for b in st_t] for a in st_t]
    return {"dt": pt["dt"], "x": {r(k): v for k, v in pt["x"].items()}, "u": {r(k): v for k, v in pt["u"].items()}, "P": P,
            "z": {r(k): {r(rn): v for rn, v in rs.items()} for k, rs in pt["z"].items()}}


def eval_twin(case):
    base, ren = case["base"], case["ren"]
    twin = space.rename_def(base, ren)
    # the twin also gets the opposite container and reversed declaration order: neither may matter
    twin["container"] = "list" if base["container"] == "set" else "set"
    for k in ("state", "control", "calibration", "model", "calmap", "pnoise"):
        twin[k] = list(reversed(twin[k]))
    twin["sensors"] = [[k, list(reversed(rs))] for k, rs in reversed(twin["sensors"])]
    twin["snoise"] = [[k, list(reversed(rs))] for k, rs in twin["snoise"]]
    if case.get("assume"):  # ... and its symbols are declared with a sympy assumption (other objects, same names)
        twin["assume"] = {"*": {"real": True}}
    tag = f"{base['name']} ren={ren}" + (" twin-symbols-real" if case.get("assume") else "")
    fails = []

    def fail(key, what):
        if not any(f["key"] == key for f in fails):
            fails.append({"key": key, "what": f"{tag}: {what}"})

    pts = points_for(base, ren, case["seed"])
    tpts = [rename_point(p, ren, base, twin) for p in pts]
    r = lambda n: ren.get(n, n)
    n = 0
    impls = [("py", named_outputs_py)]
    for lab, fnc in impls:
        try:
            ob = fnc(base, pts)
            ot = fnc(twin, tpts)
        except Exception as e:
            fail(f"raises:{lab}", f"{type(e).__name__}: {str(e)[:200]}")
            continue
        n += compare(ob, ot, r, lab, fail)
    if case.get("cpp"):
        rb, ob = named_outputs_cpp(base, pts)
        rt, ot = named_outputs_cpp(twin, tpts)
        if ob is None or ot is None:
            bad = rb if ob is None else rt
            fail(f"{bad['stage']}-failed:cpp", f"C++ {bad['stage']} failed: {bad['error']}")
        else:
            n += compare(ob, ot, r, "cpp", fail)
            # C++ base vs Python base (same names): ties the two implementations to the same named values
            try:
                opy = named_outputs_py(base, pts)
            except Exception as e:
                fail("raises:py", f"{type(e).__name__}: {str(e)[:200]}")
                opy = []
            for o1, o2 in zip(ob, opy):
                for key, v in o1.items():
                    if key in o2 and not pyimpl.close(v, o2[key], 1e-9, 4.0):
                        fail("cpp-vs-python-by-name", f"{key}: C++ {v!r} vs Python {o2[key]!r}")
    # a vector built from the TWIN's names (same kind, same size, other names) handed to the BASE model / filter has no by-name
    # meaning there: it must be refused, not re-bound by position
    try:
        eb = pyimpl.py_ekf(base, {"innovation_filtering": None})
        et = pyimpl.py_ekf(twin, {"innovation_filtering": None})
        mb, mt = pyimpl.py_model(base), pyimpl.py_model(twin)
        pb, pt_ = pts[0], tpts[0]
        sb, cb, ub = eb.State(**pb["x"]), eb.Covariance.from_data(np.array(pb["P"], dtype=float)), eb.Control(**pb["u"])
        stw, ctw, utw = et.State(**pt_["x"]), et.Covariance.from_data(np.array(pt_["P"], dtype=float)), et.Control(**pt_["u"])
        foreign = [("model(state of the twin)", lambda: mb.model(pb["dt"], mt.State(**pt_["x"]), mb.Control(**pb["u"]))),
                   ("process_model(state of the twin)", lambda: eb.process_model(pb["dt"], stw, cb, ub)),
                   ("process_model(covariance of the twin)", lambda: eb.process_model(pb["dt"], sb, ctw, ub))]
        if pb["u"]:
            foreign.append(("process_model(control of the twin)", lambda: eb.process_model(pb["dt"], sb, cb, utw)))
            foreign.append(("model(control of the twin)", lambda: mb.model(pb["dt"], mb.State(**pb["x"]), mt.Control(**pt_["u"]))))
        keys = sorted(eb.sensor_models)
        for key in keys:
            zt = et.make_reading(r(key), **pt_["z"][r(key)])
            foreign.append((f"sensor_model({key}, reading of the twin)", lambda key=key, zt=zt: eb.sensor_model(sb, cb, sensor_key=key, sensor_reading=zt)))
            foreign.append((f"sensor_model({key}, state of the twin)", lambda key=key: eb.sensor_model(stw, cb, sensor_key=key, sensor_reading=eb.make_reading(key, **pb["z"][key]))))
        # ... and a reading of ANOTHER sensor of the same filter with equally many readings
        for k1 in keys:
            for k2 in keys:
                n1, n2 = pyimpl.names_of(eb.sensor_models[k1].Reading), pyimpl.names_of(eb.sensor_models[k2].Reading)
                if k1 != k2 and len(n1) == len(n2) and n1 != n2:
                    z2 = eb.make_reading(k2, **pb["z"][k2])
                    foreign.append((f"sensor_model({k1}, reading of sensor {k2})", lambda k1=k1, z2=z2: eb.sensor_model(sb, cb, sensor_key=k1, sensor_reading=z2)))
        if any(ren.get(a_, a_) != a_ for a_ in list(pb["x"]) + list(pb["u"])):
            for lab, call in foreign:
                n += 1
                try:
                    call()
                except Exception:
                    continue
                if "reading" in lab and all(ren.get(a_, a_) == a_ for a_ in sum((list(v_) for v_ in pb["z"].values()), [])) and "of sensor" not in lab:
                    continue  # reading names were not renamed by this renaming: the twin's reading is the same thing
                if ("state" in lab or "covariance" in lab) and all(ren.get(a_, a_) == a_ for a_ in pb["x"]):
                    continue
                if "control" in lab and all(ren.get(a_, a_) == a_ for a_ in pb["u"]):
                    continue
                fail("foreign-vector-accepted", f"{lab} was accepted although its names are those of the renamed twin, not of this model")
    except Exception as e:
        fail("raises:py", f"{type(e).__name__}: {str(e)[:200]}")
    # base equals the reference model (so agreement is not two wrongs)
    refb = RefEKF(base)
    try:
        opy = named_outputs_py(base, pts[:1])[0]
        full = refb.env(dict(pts[0]["x"], **pts[0]["u"], dt=pts[0]["dt"]))
        fx = refb.fx(full)
        for i, s in enumerate(refb.st):
            if not pyimpl.close(opy[("model", s)], fx[i], 1e-9):
                fail("base-vs-reference", f"model {s}: {opy[('model', s)]!r} vs reference {float(fx[i])!r}")
    except R.Singular:
        pass
    except Exception as e:
        fail("raises:py", f"{type(e).__name__}: {str(e)[:200]}")
    return {"n": n, "fails": fails, "sig": tag, "nontrivial": len(ren) >= 2,
            "outcomes": ["twin-compared"] + (["twin-compared-cpp"] if case.get("cpp") else []),
            "sample": {"kind": "twin", "base": base["name"], "renaming": ren, "named_outputs_compared": n, "cpp": bool(case.get("cpp"))}}


def compare(ob, ot, r, lab, fail):
    n = 0
    for o1, o2 in zip(ob, ot):
        for key, v in o1.items():
            tkey = (key[0],) + tuple(r(k) for k in key[1:])
            n += 1
            if tkey not in o2:
                fail(f"missing-output:{lab}", f"twin has no output {tkey} (base {key})")
                return n
            if not pyimpl.close(o2[tkey], v, 1e-12, abs(v)):
                fail(f"renaming-changes-output:{lab}", f"{key} = {v!r} but renamed twin gives {tkey} = {o2[tkey]!r}")
                return n
    return n


def coupled_def():
    """nonlinear cross-coupled model (p' = p + q r dt, s' = s + p q dt): the kind of model the optional extra validation reasons about"""
    S, add, mul, DT = space.S, space.add, space.mul, space.DT
    model = [["p", add(S("p"), mul(mul(S("q"), S("r")), DT))], ["q", S("q")], ["r", add(S("r"), mul(DT, S("u")))],
             ["s", add(S("s"), mul(mul(S("p"), S("q")), DT))]]
    return space.mkdef("coupled4", ["s", "p", "r", "q"], ["u"], [], model, [], [["u", 0.25]], [["gps", [["r1", S("p")], ["r2", add(S("s"), S("q"))]]]],
                       [["gps", [["r2", 0.5], ["r1", 0.25]]]])


def eval_validate_twin(case):
    """accept / refuse decisions with Config(extra_validation=True) do not depend on names, declaration order or container either"""
    from formak import python as fpy
    from formak.exceptions import ModelConstructionError
    base = case["base"]
    fails, n, sigs = [], 0, []

    def outcome(d):
        try:
            fpy.compile_ekf(pyimpl.ui_model(d), pyimpl.pnoise(d), pyimpl.sensors(d), pyimpl.snoise(d), pyimpl.calmap(d),
                            config=fpy.Config(extra_validation=True))
            return "accepted"
        except ModelConstructionError:
            return "refused:ModelConstructionError"
        except Exception as e:
            return f"raised:{type(e).__name__}"

    from fv import core
    with core.quiet():
        ob = outcome(base)
    for ri, ren in enumerate(renamings(base)[: case["count"]]):
        for container in ("set", "list"):
            for rev in (False, True):
                twin = space.rename_def(base, ren)
                twin["container"] = container
                if rev:
                    for k in ("state", "control", "calibration", "model", "calmap", "pnoise"):
                        twin[k] = list(reversed(twin[k]))
                elif ri % 2:
                    twin["model"] = twin["model"][1:] + twin["model"][:1]  # update dict declared in an order of its own
                with core.quiet():
                    ot = outcome(twin)
                n += 1
                sigs.append(f"vt:{base['name']}:{ri}:{container}:{rev}")
                if ot != ob and not fails:
                    fails.append({"key": "extra-validation-depends-on-declaration", "what": f"{base['name']} with extra_validation=True is {ob}, but "
                                  f"renamed {ren} / container {container} / {'reversed' if rev else 'rotated' if ri % 2 else 'same'} declaration order is {ot}"})
    return {"n": n, "fails": fails, "sigs": sigs, "outcomes": ["validate-twin", f"validate-twin:{ob.split(':')[0]}"],
            "sample": {"kind": "validate-twin", "definition": base["name"], "outcome": ob, "variants": n}}


def eval_case(case):
    if case["kind"] == "validate-twin":
        return eval_validate_twin(case)
    return eval_construct(case) if case["kind"] == "construct" else eval_twin(case)


REQUIRED_OUTCOMES = ["constructed", "twin-compared", "twin-compared-cpp", "validate-twin"]
