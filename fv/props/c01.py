"""C01 - compiled Python model computes exactly the user's symbolic state model."""
from __future__ import annotations

from fv import pyimpl, space
from fv.refmodel import Singular, ref_eval, ref_eval_mag

ID = "C01"
LEVEL = "exploration"
from fv.claims import CLAIMS
TECHNIQUE = CLAIMS[ID]["technique"]
RULE = (
    "programs = families BIND (27 shapes n,k,c; thorough: + all declaration orders of 4 shapes), OPS (one construct "
    "per program per operand kind), CSE (shared cores x wrappers, nested temporaries); each compiled with CSE on and "
    "off through formak.python.compile and evaluated on the full Cartesian dyadic grid (2 quick / 3 thorough values "
    "per symbol slot, all slots distinct) x dt values; one evaluation = one model() call compared output-by-name with "
    "the reference interpreter. In addition all OPS look-alike programs (incl. pairs that differ only in a -1 / -2 coefficient "
    "or exponent) are compiled one after the other in ONE process, in both orders and both CSE settings, and each is checked "
    "right after compiling and again after all were compiled. distinct = distinct definition records; non-trivial = >=2 input symbols and at least "
    "one grid point evaluated (not skipped as singular). Also: CSE chains whose temporaries are read only by other temporaries (depth 3-5), "
    "temporaries that depend only on the control / calibration / dt, definitions whose symbols carry sympy assumptions "
    "(real=True / finite=True on all or on some symbols), and a block-size sweep (1..8 states, dense rows, rows with more "
    "temporaries than statements). One ui.Model object (and one set of noise / sensor dictionaries) is also compiled four times with different calibration maps and CSE settings; every compiled object is checked against ITS calibration right after compiling and again after all were compiled. "
    " OPS also has one program per further elementary function (asin .. cot, atan2), linear updates with non-dyadic rational coefficients, and three programs whose intermediates overflow (exp(896)) while the value is defined. After its first compile the caller edits its own dictionaries before the compiled model is first used; the model must still be what it was compiled from."
    " Saturation constructs (sympy Piecewise with comparisons; AST node clip), alone and shared by several outputs, evaluated on both sides of the bounds."
    " Four programs are also compiled with every other Config field away from its default (extra_validation=True, innovation_filtering=None, max_dt_sec=0.05)."
)
ASSUMPTIONS = [
    "expressions limited to the grammar (+ - * /, integer powers 2,3,-1,-2, sin cos tan atan tanh exp log sqrt asin acos atanh sinh cosh asinh acot sec csc cot, atan2), depth <= 3",
    "inputs on a dyadic grid; points where the reference meets a singular sub-expression are skipped and counted",
    "calibration passed as a set (ui.Model's documented default container)",
    "tolerance 1e-9 relative to max(1, |ref|)",
]
REL = 1e-9


def cases(tier, seed):
    per = 2 if tier == "quick" else 3
    defs = space.family_bind(tier) + space.family_ops(tier) + space.family_cse(tier)
    # the same programs handed over as strings (ui.Model parses them)
    strs = [dict(d, as_strings=True, name=d["name"] + "-str") for d in space.family_ops("quick")]
    strs += [dict(d, as_strings=True, name=d["name"] + "-str") for d in space.family_bind("quick")[::3]]
    defs += strs if tier == "thorough" else strs[::4]
    # symbols declared with sympy assumptions (different objects from plain Symbol(name)): all symbols, or only some of them
    b = space.family_bind("quick")
    defs += [space.assumed(b[13]), space.assumed(b[26]), space.assumed(b[22], ["x", "w"]), space.assumed(b[17], ["y", "k"], "finite")]
    defs += [space.assumed(d) for d in space.family_cse("quick") if any(t in d["name"] for t in ("chain4", "ctl-only", "nest3b"))]
    # block-size sweep (n = 1..8 statements per model block, rows with many temporaries of their own)
    defs += space.family_sizes(tier)
    # the other Config fields must not change what the compiled model computes: a few programs compiled with every other field
    # away from its default (the optional extra validation accepts these models)
    other = {"extra_validation": True, "innovation_filtering": None, "max_dt_sec": 0.05}
    for d_ in [b[13], b[22], b[26], b[17]]:
        yield {"def": dict(d_, name=d_["name"] + "-cfg"), "per_symbol": 2, "seed": seed, "dts": [0.125, -0.25], "config": other}
    # intermediates that overflow to inf while the value stays defined (1/(1 + exp(896)) = 0)
    defs += space.family_extreme()
    defs += space.family_piecewise()  # saturation constructs (Piecewise with comparisons)
    for d in defs:
        nsym = len(d["state"]) + len(d["control"])
        p = per if nsym <= 5 else 2
        yield {"def": d, "per_symbol": p, "seed": seed, "dts": [0.125, -0.25]}
    # many look-alike models compiled one after the other in ONE process, in both orders: a compiled model must not depend
    # on what was compiled before it, and must not be disturbed by what is compiled after it
    # ONE ui.Model object compiled several times with different calibration maps / CSE settings
    for d_ in (space.bind_def(2, 1, 2, order=1, sensors_shape=(2, 1)), space.bind_def(3, 2, 1, order=2, sensors_shape=(1, 2)),
               space.bind_def(3, 0, 3, order=4, sensors_shape=(1,))):
        yield {"kind": "shared", "def": d_, "seed": seed}
    ops = space.family_ops("thorough")
    for order in ("fwd", "rev"):
        for cse in (True, False):
            yield {"kind": "sequence", "defs": ops if tier == "thorough" else ops[::2] + ops[-14:], "order": order, "cse": cse, "seed": seed}


def eval_sequence(case):
    defs = list(case["defs"])
    if case["order"] == "rev":
        defs.reverse()
    fails, n = [], 0
    compiled = []

    def check(d, m, when):
        nonlocal n
        st, ca, ct = space.def_symbols(d)
        cal = dict((k, v) for k, v in d["calmap"])
        asts = dict((k, a) for k, a in d["model"])
        for env in space.some_points(st + ct, 3, case["seed"], dts=(0.125, -0.25)):
            full = dict(env)
            full.update(cal)
            try:
                ref = {s: ref_eval(asts[s], full) for s in st}
            except Singular:
                continue
            try:
                r = m.model(env["dt"], m.State(**{s: env[s] for s in st}), m.Control(**{s: env[s] for s in ct}))
            except Exception as e:
                fails.append({"key": f"sequence-raises:{type(e).__name__}", "what": f"{d['name']} ({when}) raised {e!r}"[:300]})
                return
            n += 1
            o = pyimpl.vec_by_name(r)
            for s in st:
                if not pyimpl.close(o[s], ref[s], REL):
                    if not any(f["key"] == f"sequence-value:{when}" for f in fails):
                        fails.append({"key": f"sequence-value:{when}", "what": f"{d['name']} compiled as #{len(compiled)} of a sequence "
                                      f"({case['order']}, cse={case['cse']}): state '{s}' = {o[s]!r}, symbolic value {float(ref[s])!r} at {env} "
                                      f"[checked {when}]"})
                    return

    for d in defs:
        try:
            m = pyimpl.py_model(d, {"cse": case["cse"]})
        except Exception as e:
            fails.append({"key": f"compile-refused:{type(e).__name__}", "what": f"{d['name']}: {e!r}"[:300]})
            continue
        compiled.append((d, m))
        check(d, m, "right after compiling")
    for d, m in compiled:
        check(d, m, "after all were compiled")
    return {"n": n, "fails": fails[:3], "sig": f"sequence:{case['order']}:{case['cse']}", "outcomes": ["evaluated", "sequence"],
            "sample": {"kind": "sequence", "order": case["order"], "cse": case["cse"], "models_in_one_process": len(compiled),
                       "first": defs[0]["name"], "last": defs[-1]["name"]}}


def eval_case(case):
    if case.get("kind") == "shared":
        from fv import ekfcheck
        n, fails = ekfcheck.shared_inputs(case["def"], case["seed"], aspects=("model",))
        return {"n": n, "fails": fails, "sig": "shared:" + case["def"]["name"], "outcomes": ["evaluated", "shared-inputs"], "nontrivial": True,
                "sample": {"kind": "shared-inputs", "definition": case["def"]["name"], "compiles_of_one_ui_model": 4, "calls": n}}
    if case.get("kind") == "sequence":
        return eval_sequence(case)
    d = case["def"]
    fails = []
    st, ca, ct = space.def_symbols(d)
    cal = dict((k, v) for k, v in d["calmap"])
    asts = dict((k, a) for k, a in d["model"])
    models = {}
    for cse in (True, False):
        try:
            models[cse] = pyimpl.py_model(d, dict(case.get("config") or {}, cse=cse))
        except Exception as e:
            if (case.get("config") or {}).get("extra_validation"):
                # refusing a model is what the optional extra validation is for (and it is experimental): not C01's business
                return {"n": 0, "fails": [], "outcomes": ["extra-validation-refused"], "sig": d["name"], "nontrivial": False,
                        "sample": {"program": d["name"], "outcome": f"refused under extra_validation=True: {type(e).__name__}"}}
            fails.append({"key": f"compile-refused:{type(e).__name__}", "what": f"accepted definition {d['name']} "
                          f"refused by python.compile (cse={cse}): {type(e).__name__}: {str(e)[:200]}"})
    if fails:
        return {"n": 1, "fails": fails}
    n = skipped = 0
    worst = 0.0
    for env in space.grid_points(st + ct, case["per_symbol"], case["seed"], case["dts"], specials=space.special_values(list(asts.values())),
                                 large=all(space.is_polynomial(a_) for a_ in asts.values())):
        full = dict(env)
        full.update(cal)
        try:
            refm = {s: ref_eval_mag(asts[s], full) for s in st}
            ref = {s: v for s, (v, _) in refm.items()}
            mag = {s: float(m_) for s, (_, m_) in refm.items()}
        except Singular:
            skipped += 1
            continue
        outs = {}
        for cse, m in models.items():
            try:
                # keywords in reverse-sorted order: binding must be by name, not by keyword position
                state = m.State(**{s: env[s] for s in reversed(st)})
                control = m.Control(**{s: env[s] for s in reversed(ct)})
                r = m.model(env["dt"], state, control) if ct else m.model(env["dt"], state)
                outs[cse] = pyimpl.vec_by_name(r)
            except Exception as e:
                fails.append({"key": f"model-raises:{type(e).__name__}",
                              "what": f"{d['name']} cse={cse} model() raised {type(e).__name__}: {str(e)[:200]} at {env}"})
                outs = None
                break
            n += 1
        if outs is None:
            break
        for cse, o in outs.items():
            for s in st:
                err = abs(o[s] - float(ref[s]))
                worst = max(worst, err / max(1.0, abs(float(ref[s]))))
                if not pyimpl.close(o[s], ref[s], REL, mag[s] if mag[s] > 1e6 else 1.0):
                    fails.append({"key": "value-mismatch",
                                  "what": f"{d['name']} cse={cse}: state '{s}' = {o[s]!r}, symbolic value "
                                          f"{float(ref[s])!r} at {env} cal={cal}"})
        for s in st:
            if not pyimpl.close(outs[True][s], outs[False][s], 1e-12, mag[s] if mag[s] > 1e6 else 1.0):
                fails.append({"key": "cse-changes-result",
                              "what": f"{d['name']}: state '{s}' cse on {outs[True][s]!r} != off {outs[False][s]!r} at {env}"})
        if len(fails) > 5:
            break
    # the same computation for states/controls handed over as integer or single-precision arrays (from_data): the model's
    # values do not depend on the dtype the caller happened to use for exactly representable inputs
    import numpy as np
    ivals = [3, -2, 1, 4, -1, 2, 5, -3]
    ienv = {s: float(ivals[i % 8]) for i, s in enumerate(st + ct)}
    full = dict(ienv, dt=0.125)
    full.update(cal)
    try:
        ref = {s: ref_eval(asts[s], full) for s in st}
    except Singular:
        ref = None
    if ref is not None and not fails:
        for dtype in ("int64", "float32", "float64"):
            for cse, m in models.items():
                try:
                    sdata = np.array([[ienv[s]] for s in st], dtype=dtype)
                    cdata = np.array([[ienv[s]] for s in ct], dtype=dtype).reshape((len(ct), 1))
                    r = m.model(0.125, m.State.from_data(sdata), m.Control.from_data(cdata))
                    o = pyimpl.vec_by_name(r)
                except Exception as e:
                    fails.append({"key": f"model-raises:{type(e).__name__}", "what": f"{d['name']} cse={cse}: model() on a {dtype} "
                                  f"State.from_data raised {type(e).__name__}: {str(e)[:150]}"})
                    break
                n += 1
                for s in st:
                    if not pyimpl.close(o[s], ref[s], REL):
                        fails.append({"key": "value-mismatch", "what": f"{d['name']} cse={cse}: state '{s}' = {o[s]!r} for a {dtype} input array, "
                                      f"symbolic value {float(ref[s])!r} at {ienv}"})
                        break
    # model() without control must be refused iff the model has controls
    m = models[True]
    try:
        m.model(0.125, m.State())
        refused = False
    except TypeError:
        refused = True
    except Exception as e:
        refused = None
        fails.append({"key": f"model-raises:{type(e).__name__}", "what": f"{d['name']} model(dt, state) raised {e!r}"})
    if refused is not None and refused != bool(ct):
        fails.append({"key": "control-arity", "what": f"{d['name']}: model() without control refused={refused}, "
                      f"controls={ct}"})
    # de-duplicate keys per case, keep the first message
    seen, uniq = set(), []
    for f in fails:
        if f["key"] not in seen:
            seen.add(f["key"])
            f["key"] = f"{f['key']}@{d['name'].split('-')[0]}"
            uniq.append(f)
    nsym = len(st) + len(ca) + len(ct)
    return {
        "n": n,
        "fails": uniq,
        "nontrivial": nsym >= 2 and n > 0,
        "counters": {"points_skipped_singular": skipped, "programs": 1},
        "outcomes": ["evaluated"] if n else ["all-skipped"],
        "sample": {"program": d["name"], "model": {k: space.show(a) for k, a in d["model"]},
                   "points": n // 2, "max_rel_err": worst},
    }


REQUIRED_OUTCOMES = ["evaluated", "sequence"]
