"""C07 - Python and generated C++ filters agree step for step."""
from __future__ import annotations

import numpy as np

from fv import cppharness, pyimpl, space
from fv.claims import CLAIMS
from fv.ekfref import RefEKF

ID = "C07"
LEVEL = "exploration"
TECHNIQUE = CLAIMS[ID]["technique"]
RULE = (
    "programs = BIND shapes with rectangular sensor sets covering all four control x calibration combinations (quick 8, "
    "thorough 27 + nonlinear OPS) x configurations CSE in {on, off} x innovation threshold k in {disabled, 5.0, 0.5}; for "
    "each, ALL event sequences of length <= 3 over {predict(0.125), predict(-0.0625), predict(0), update(s, predicted + 0.25), "
    "update(s, predicted + 3), update(s, predicted exactly: zero innovation) for every sensor s} from 2 initial (state, covariance) pairs are run on the real Python "
    "filter; every step's inputs (Python's previous outputs, printed %.17g) are replayed on the compiled generated C++ "
    "filter and state, covariance, stored innovation and accept/reject are compared by name. One evaluation = one step "
    "compared. distinct = (program, configuration, sequence); non-trivial = sequences with >= 1 update."
    " One further start per program: a prior symmetric only to 4e-6 (inside the library's own tolerance), used for a single step."
)
ASSUMPTIONS = [
    "well-conditioned inputs: covariances from the menu, readings within 3 units of the prediction",
    "tolerance 1e-9 relative to the largest covariance entry; C++ built against the Eigen stand-in with -ffp-contract=off",
]
REL = 1e-9


def cases(tier, seed):
    shapes = [(1, 0, 0), (2, 1, 1), (2, 0, 1), (3, 1, 0), (2, 2, 2), (3, 2, 1), (1, 1, 2), (3, 0, 0)]
    sens = [(1,), (2, 1), (1, 2), (2,), (3,), (1, 1), (2,), (1, 3)]
    defs = [space.bind_def(n, k, c, order=i + 1, container="list" if i % 2 else "set", sensors_shape=sens[i])
            for i, (n, k, c) in enumerate(shapes)]
    defs.append(space.bind_def(4, 3, 2, order=2, sensors_shape=(2, 1), tag="-wide"))
    defs.append(space.assumed(defs[1]))  # symbols declared real=True
    defs.append(space.family_sizes("quick")[0])  # larger blocks (16-entry Jacobian, 3-reading sensor)
    if tier == "thorough":
        defs += space.family_bind("quick", with_sensors=True)
        from fv.props.c03 import with_sensors
        # (programs built on functions with poles or a bounded domain are left to the point-wise checks: the histories explored
        # here move the state freely and would leave the domain, which is outside "all well-conditioned inputs")
        restricted = ("asin", "acos", "atanh", "acot", "sec", "csc", "cot", "atan2")
        defs += [with_sensors(d) for d in space.family_ops("quick") if len(d["state"]) == 2
                 and not d["name"].split("-")[1].startswith(restricted)][::3]
    for i, d in enumerate(defs):
        for cse in (True, False):
            for k in ((None, 5.0, 0.5) if tier == "quick" else (None, 5.0, 0.5, 2.718281828459045)):
                if tier == "quick" and (i + (1 if cse else 0) + [None, 5.0, 0.5].index(k)) % 2:
                    continue  # quick: half of the configuration matrix per program, every value of every axis still occurs
                yield {"def": d, "cse": cse, "k": k, "seed": seed, "depth": 3}


def eval_case(case):
    d = case["def"]
    ref = RefEKF(d)
    st, ct = ref.st, ref.ct
    n_s = len(st)
    tag = f"{d['name']} cse={case['cse']} k={case['k']}"
    fails = []

    def fail(key, what):
        if not any(f["key"].startswith(key) for f in fails):
            fails.append({"key": f"{key}@{d['name'].split('-')[0]}", "what": f"{tag}: {what}"})

    try:
        ekf = pyimpl.py_ekf(d, {"cse": case["cse"], "innovation_filtering": case["k"]})
    except Exception as e:
        return {"n": 1, "fails": [{"key": f"compile-refused:{type(e).__name__}", "what": f"{tag}: {e!r}"[:300]}]}
    events = [("predict", 0.125), ("predict", -0.0625), ("predict", 0.0)]
    for key in sorted(ref.h):
        # offset 0.0: the reading equals the predicted reading exactly (zero innovation: the estimate stays, the covariance
        # still contracts - wave-11 seed C07k returned the prior from C++ in that case)
        events += [("update", key, 0.25), ("update", key, 3.0), ("update", key, 0.0)]
    inits = []
    for pi, env in enumerate(space.some_points(st, 2, case["seed"])):
        P = [[(1.0 + 0.5 * i + pi) if i == j else (0.125 if pi == 0 else -0.0625 * (i + j)) for j in range(n_s)] for i in range(n_s)]
        inits.append(([env[s] for s in st], P))
    if n_s >= 2:
        # a prior that is symmetric only to 4e-6 (inside the tolerance of the library's own validity check): both implementations
        # take the matrix as given, so formulas that agree only for an exactly symmetric P come apart here
        xa, Pa = inits[0]
        Pa = [list(r) for r in Pa]
        Pa[0][n_s - 1] = Pa[0][n_s - 1] * (1.0 + 2.0 ** -18)
        inits.append((list(xa), Pa))
    ctrl = {c: 0.5 + 0.75 * i for i, c in enumerate(ct)}

    # run every sequence on the Python filter, collecting one C++ evaluation point per step
    points, expect = [], []
    accepted = rejected = 0

    def rec(x, P, depth, seq):
        nonlocal accepted, rejected
        if depth == 0:
            return
        for ev in events:
            state = ekf.State.from_data(np.array(x, dtype=float).reshape((-1, 1)))
            cov = ekf.Covariance.from_data(np.array(P, dtype=float))
            z = {k: {r: 0.0 for r in ref.readings(k)} for k in ref.h}
            try:
                if ev[0] == "predict":
                    out = ekf.process_model(ev[1], state, cov, ekf.Control(**ctrl))
                    dt = ev[1]
                    exp = {"kind": "predict"}
                else:
                    key = ev[1]
                    pred = ekf.sensor_models[key].model(state)
                    zv = pred.data + ev[2]
                    for i, r in enumerate(ref.readings(key)):
                        z[key][r] = float(zv[i, 0])
                    reading = ekf.sensor_models[key].Reading.from_data(zv.copy())
                    out = ekf.sensor_model(state, cov, sensor_key=key, sensor_reading=reading)
                    dt = 0.125
                    unchanged = np.array_equal(out.state.data, state.data) and np.array_equal(out.covariance.data, cov.data)
                    accepted += 0 if unchanged else 1
                    rejected += 1 if unchanged else 0
                    exp = {"kind": "update", "key": key, "rejected": unchanged,
                           "innovation": [float(v) for v in ekf.innovations[key].ravel()]}
            except Exception as e:
                if asym[0] and isinstance(e, AssertionError):
                    continue  # the library may refuse a prior that is not exactly symmetric (its derived S can exceed the tolerance)
                fail(f"python-raises:{type(e).__name__}", f"{ev} raised {type(e).__name__}: {str(e)[:150]} after {seq}")
                continue
            x2 = [float(v) for v in out.state.data.ravel()]
            P2 = [[float(v) for v in r] for r in out.covariance.data]
            if not (np.all(np.isfinite(x2)) and np.all(np.isfinite(np.array(P2))) and np.abs(np.array(P2)).max() < 1e6):
                continue
            exp.update({"x": x2, "P": P2, "seq": seq + [list(ev)], "xin": list(x), "Pin": [list(r) for r in P]})
            points.append({"dt": dt, "x": dict(zip(st, x)), "P": P, "u": ctrl, "z": z})
            expect.append(exp)
            rec(x2, P2, depth - 1, seq + [list(ev)])

    asym = [False]
    for ii, (x0, P0) in enumerate(inits):
        asym[0] = ii == 2
        # the asymmetric prior is used for ONE step only: a prediction does not symmetrise, so its asymmetry may legitimately grow
        # past the validity check's tolerance along a longer history
        rec(x0, P0, 1 if ii == 2 else case["depth"], [])
    if not points:
        return {"n": 1, "fails": fails or [{"key": "no-steps", "what": f"{tag}: python filter produced no step"}]}
    cfg = {"cse": case["cse"], "innovation_filtering": case["k"]}
    res = cppharness.build_and_run_ekf(d, cfg, points)
    if not res["ok"]:
        fail(f"{res['stage']}-failed", f"C++ {res['stage']} failed: {res['error']}")
        return {"n": 1, "fails": fails}
    n = 0
    for p, exp in enumerate(expect):
        got = res["results"].get(p, {})
        scale = max(1.0, max(abs(v) for r in exp["Pin"] for v in r))
        n += 1
        if exp["kind"] == "predict":
            gx = [got.get(("px", s)) for s in st]
            gP = [[got.get(("pP", str(i), str(j))) for j in range(n_s)] for i in range(n_s)]
        else:
            k = exp["key"]
            gx = [got.get(("ux", k, s)) for s in st]
            gP = [[got.get(("uP", k, str(i), str(j))) for j in range(n_s)] for i in range(n_s)]
            gi = [got.get(("inn", k, str(i))) for i in range(len(exp["innovation"]))]
            if got.get(("innset", k)) != 1 or any(g is None or not pyimpl.close(g, e, REL) for g, e in zip(gi, exp["innovation"])):
                fail("innovation-differs", f"step {exp['seq']}: C++ stored innovation {gi}, Python {exp['innovation']}")
            c_rej = all(a == b for a, b in zip(gx, exp["xin"])) and all(a == b for ra, rb in zip(gP, exp["Pin"]) for a, b in zip(ra, rb))
            if c_rej != exp["rejected"]:
                fail("decision-differs", f"step {exp['seq']}: reading {'rejected' if exp['rejected'] else 'accepted'} by Python, "
                     f"{'rejected' if c_rej else 'accepted'} by C++")
        for i, s in enumerate(st):
            if gx[i] is None or not pyimpl.close(gx[i], exp["x"][i], REL, scale):
                fail("state-differs", f"step {exp['seq']}: state '{s}' C++ {gx[i]!r} vs Python {exp['x'][i]!r}")
                break
        for i in range(n_s):
            for j in range(n_s):
                if gP[i][j] is None or not pyimpl.close(gP[i][j], exp["P"][i][j], REL, scale):
                    fail("covariance-differs", f"step {exp['seq']}: P[{i},{j}] C++ {gP[i][j]!r} vs Python {exp['P'][i][j]!r}")
                    break
            else:
                continue
            break
        if fails:
            fails[-1].setdefault("detail", {"point": points[p], "expect": exp})
            break
    combo = f"control={'y' if ct else 'n'},calibration={'y' if ref.ca else 'n'}"
    outs = ["steps-compared", combo]
    if accepted:
        outs.append("accepted")
    if rejected:
        outs.append("rejected")
    return {"n": n, "fails": fails, "sigs": [f"{tag}:{i}" for i, e in enumerate(expect) if any(s[0] == "update" for s in e["seq"])], "nontrivial": True,
            "counters": {"steps": n, "accepted_updates": accepted, "rejected_updates": rejected},
            "outcomes": outs,
            "sample": {"program": d["name"], "cse": case["cse"], "k": case["k"], "steps_compared": n,
                       "example_sequence": expect[len(expect) // 2]["seq"]}}


REQUIRED_OUTCOMES = ["steps-compared", "accepted", "rejected", "control=y,calibration=y", "control=y,calibration=n",
                     "control=n,calibration=y", "control=n,calibration=n"]
