"""C19 - strapdown IMU reference model obeys rigid-body kinematics."""
from __future__ import annotations

import itertools
from fractions import Fraction as F

from fv import pyimpl
from fv.claims import CLAIMS

ID = "C19"
CASE_TIMEOUT_S = 2400  # per-case alarm (seconds); a case that does not finish is reported as a violation
LEVEL = "exploration"
TECHNIQUE = CLAIMS[ID]["technique"]
RULE = (
    "the 16 update expressions of formak.reference_models.strapdown_imu.state_model are evaluated EXACTLY (rational "
    "arithmetic) against 25 lines of quaternion algebra over Fractions on the product grid: orientation and mounting "
    "calibration each in {4 basis quaternions, 6 sums e_i + e_j, one dense dyadic quaternion} (121 pairs, non-unit on "
    "purpose) x 8 joint (specific force, bias, gyro) menus (zeros, unit vectors on different axes, force = bias, dense) x "
    "g in {9.8125, 1} x dt in {0.125, -0.5}; thorough adds, per output, the product of principal lattices "
    "{x in N^8 : sum <= D_q} x {y in N^r : sum <= D_o} on which a polynomial identity of the measured degrees that holds "
    "at every lattice point holds identically. The compiled Python model (python.compile of symbolic_model) is evaluated "
    "in floats on a sub-grid against the same reference, every compiled model being called with all orientations / IMU samples in turn "
    "(CSE off: all calibrations; CSE on: one calibration quaternion in quick, all in thorough). One evaluation = one output at one point. distinct = points; "
    "non-trivial = points with a non-identity composed rotation or non-zero gyro."
    " The compiled model is also fed from float32 buffers (State.from_data / Control.from_data) whose values use the full 24-bit mantissa and compared with the kinematics on exactly those values to 1e-9."
    " Partially named State / Control inputs (everything else left to its default) are evaluated against the kinematics with zeros there, with freed non-zero buffers of the same size lying around."
)
ASSUMPTIONS = [
    "exact comparison: the model's Float coefficients (0.5, 1.0) are dyadic and converted to rationals without loss",
    "thorough tier: degree bounds are measured syntactically on the model's expressions (recorded in the evidence)",
]


# ----------------------------------------------------------------------------- reference: quaternion algebra


def qmul(p, q):
    a1, b1, c1, d1 = p
    a2, b2, c2, d2 = q
    return (a1 * a2 - b1 * b2 - c1 * c2 - d1 * d2, a1 * b2 + b1 * a2 + c1 * d2 - d1 * c2,
            a1 * c2 - b1 * d2 + c1 * a2 + d1 * b2, a1 * d2 + b1 * c2 - c1 * b2 + d1 * a2)


def qconj(q):
    return (q[0], -q[1], -q[2], -q[3])


def reference(ori, cori, f, b, w, g, dt, p, v):
    q = qmul(ori, cori)
    n2 = sum(x * x for x in q)
    rot = lambda vec: tuple(x / n2 for x in qmul(qmul(q, (0,) + tuple(vec)), qconj(q))[1:])
    sf = tuple(fi - bi for fi, bi in zip(f, b))
    a = tuple(x + y for x, y in zip(rot(sf), (0, 0, -g)))
    rates = qmul(qmul(q, (0,) + tuple(w)), qconj(q))[1:]        # (roll, pitch, yaw) = (b, c, d)
    vel = tuple(vi + ai * dt for vi, ai in zip(v, a))
    pos = tuple(pi + vi * dt + ai * dt * dt / 2 for pi, vi, ai in zip(p, v, a))
    dq = qmul(ori, (0,) + tuple(w))
    nori = tuple(o + F(1, 2) * d * dt for o, d in zip(ori, dq))
    return {"a": a, "rates": rates, "v": vel, "p": pos, "ori": nori}


NAMES = {
    "ori": ["oriw", "orix", "oriy", "oriz"], "cori": ["coriw", "corix", "coriy", "coriz"],
    "w": [r"\omega_{1}", r"\omega_{2}", r"\omega_{3}"], "f": ["f_{1}", "f_{2}", "f_{3}"],
    "b": ["f_bias_{1}", "f_bias_{2}", "f_bias_{3}"], "p": ["x_{A}_{1}", "x_{A}_{2}", "x_{A}_{3}"],
    "v": [r"\dot{x}_{A}_{1}", r"\dot{x}_{A}_{2}", r"\dot{x}_{A}_{3}"], "a": [r"\ddot{x}_{A}_{1}", r"\ddot{x}_{A}_{2}", r"\ddot{x}_{A}_{3}"],
    "rates": [r"\dot{\phi}", r"\dot{\theta}", r"\dot{\psi}"],   # roll, pitch, yaw
}


def expected_by_name(ref):
    out = {}
    for grp in ("a", "rates", "v", "p", "ori"):
        for n, val in zip(NAMES[grp], ref[grp]):
            out[n] = val
    return out


_EXACT = None


def exact_model():
    """{output name: (function over Fractions, argument names)} built from the REAL state_model"""
    global _EXACT
    if _EXACT is None:
        import sympy
        from sympy.printing.lambdarepr import LambdaPrinter
        from formak.reference_models import strapdown_imu as m

        class P(LambdaPrinter):
            def _print_Rational(self, e):
                return f"Fraction({e.p}, {e.q})"

            def _print_Integer(self, e):
                return f"Fraction({e.p})"

        syms = sorted(set().union(*[sympy.nsimplify(v, rational=True).free_symbols for v in m.state_model.values()]) | {m.dt}, key=lambda s: s.name)
        _EXACT = {}
        for k, v in m.state_model.items():
            e = sympy.nsimplify(v, rational=True)
            fn = sympy.lambdify(syms, e, modules=[{"Fraction": F}], printer=P, cse=True)
            _EXACT[k.name] = fn
        _EXACT["__syms__"] = [s.name for s in syms]
    return _EXACT


def env_of(ori, cori, f, b, w, g, dt, p, v, rates0=(0, 0, 0), a0=(0, 0, 0)):
    env = {"g": g, "dt": dt}
    for grp, vals in (("ori", ori), ("cori", cori), ("f", f), ("b", b), ("w", w), ("p", p), ("v", v), ("rates", rates0), ("a", a0)):
        for n, x in zip(NAMES[grp], vals):
            env[n] = x
    return env


BASIS = [(1, 0, 0, 0), (0, 1, 0, 0), (0, 0, 1, 0), (0, 0, 0, 1)]
QUATS = BASIS + [tuple(a + b for a, b in zip(BASIS[i], BASIS[j])) for i, j in itertools.combinations(range(4), 2)] + [
    (F(3, 4), F(-1, 2), F(5, 4), F(1, 8))]
E = [(1, 0, 0), (0, 1, 0), (0, 0, 1)]
Z = (0, 0, 0)
DENSE = (F(3, 2), F(-5, 4), F(7, 8))
FBW = [(Z, Z, Z), (E[0], Z, Z), (E[1], Z, E[0]), (E[2], E[0], E[1]), (Z, E[1], E[2]), (DENSE, (F(1, 4), F(1, 2), F(-3, 4)), (F(-1, 2), F(9, 8), F(2))),
       (E[0], E[0], E[0]), (DENSE, Z, Z)]
GS = [F(157, 16), F(1)]
DTS = [F(1, 8), F(-1, 2)]


def cases(tier, seed):
    for i, ori in enumerate(QUATS):
        yield {"kind": "exact", "ori": i, "seed": seed}
    yield {"kind": "compiled", "cse": False, "seed": seed}
    if tier == "quick":
        # CSE on (the default configuration) is slow to compile for this model: one calibration quaternion, both biases; every
        # compiled model is called with all orientations / IMU samples in turn (a compiled model must not remember a call)
        yield {"kind": "compiled", "cse": True, "seed": seed, "coris": [2]}
    if tier == "thorough":
        yield {"kind": "compiled", "cse": True, "seed": seed}
        from fv.props import c19_lattice
        yield from c19_lattice.cases(tier, seed)


def eval_exact(case):
    ex = exact_model()
    syms = ex["__syms__"]
    ori = tuple(F(x) for x in QUATS[case["ori"]])
    fails = []
    n = 0
    sigs = []
    for ci, cori in enumerate(QUATS):
        cori = tuple(F(x) for x in cori)
        for mi, (f, b, w) in enumerate(FBW):
            for g in GS:
                for dt in DTS:
                    p = (F(1, 2) + ci, F(-3, 4), F(5, 8) * (mi + 1))
                    v = (F(-1, 4), F(3, 2) + mi, F(7, 8))
                    env = env_of(ori, cori, [F(x) for x in f], [F(x) for x in b], [F(x) for x in w], g, dt, p, v,
                                 rates0=(F(5), F(-7), F(11)), a0=(F(13), F(-17), F(19)))
                    exp = expected_by_name(reference(ori, cori, [F(x) for x in f], [F(x) for x in b], [F(x) for x in w], g, dt, p, v))
                    args = [env[s] for s in syms]
                    nontrivial = any(w) or qmul(ori, cori) not in (BASIS[0],)
                    if nontrivial:
                        sigs.append(f"{case['ori']}:{ci}:{mi}:{g}:{dt}")
                    for name, val in exp.items():
                        got = ex[name](*args)
                        n += 1
                        if got != val:
                            if not any(fl["key"] == f"kinematics:{name}" for fl in fails):
                                fails.append({"key": f"kinematics:{name}", "what": f"state_model[{name}] = {got} ({float(got)!r}), rigid-body "
                                              f"kinematics give {val} ({float(val)!r}) at ori={ori} cori={cori} f={f} bias={b} gyro={w} g={g} dt={dt}"})
    return {"n": n, "fails": fails, "sigs": sigs, "outcomes": ["exact-evaluated"],
            "sample": {"kind": "exact", "ori": [str(x) for x in ori], "points": n // 16}}


def eval_compiled(case):
    from formak import python as fpy
    from formak.reference_models import strapdown_imu as m
    import sympy
    cal_names = NAMES["cori"] + NAMES["b"] + ["g"]
    fails = []
    n = 0
    models = {}
    for ci, cori in enumerate(QUATS[::2]):
        if case.get("coris") is not None and ci not in case["coris"]:
            continue
        cori = tuple(F(x) for x in cori)
        for bi, b in enumerate([Z, (F(1, 4), F(1, 2), F(-3, 4))]):
            g = GS[(ci + bi) % 2]
            cal = dict(zip(NAMES["cori"], cori))
            cal.update(dict(zip(NAMES["b"], b)))
            cal["g"] = g
            try:
                mdl = fpy.compile(m.symbolic_model, {sympy.Symbol(k): float(v) for k, v in cal.items()},
                                  config=fpy.Config(common_subexpression_elimination=case["cse"]))
            except Exception as e:
                return {"n": 1, "fails": [{"key": f"compile-raises:{type(e).__name__}", "what": f"python.compile(strapdown) raised {e!r}"[:300]}]}
            for oi, ori in enumerate(QUATS):
                ori = tuple(F(x) for x in ori)
                f, _, w = FBW[(oi + ci) % len(FBW)]
                dt = DTS[oi % 2]
                p = (F(1, 2), F(-3, 4), F(5, 8))
                v = (F(-1, 4), F(3, 2), F(7, 8))
                exp = expected_by_name(reference(ori, cori, [F(x) for x in f], [F(x) for x in b], [F(x) for x in w], g, dt, p, v))
                env = env_of(ori, cori, f, b, w, g, dt, p, v, rates0=(5, -7, 11), a0=(13, -17, 19))
                st_names = pyimpl.names_of(mdl.State)
                ct_names = pyimpl.names_of(mdl.Control)
                try:
                    out = mdl.model(float(dt), mdl.State(**{s: float(env[s]) for s in st_names}),
                                    mdl.Control(**{c: float(env[c]) for c in ct_names}))
                except Exception as e:
                    fails.append({"key": f"model-raises:{type(e).__name__}", "what": f"compiled strapdown model raised {e!r}"[:300]})
                    return {"n": n + 1, "fails": fails}
                got = pyimpl.vec_by_name(out)
                for name, val in exp.items():
                    n += 1
                    if not pyimpl.close(got[name], float(val), 1e-9, abs(float(val))):
                        if not any(fl["key"] == f"compiled:{name}" for fl in fails):
                            fails.append({"key": f"compiled:{name}", "what": f"compiled model {name} = {got[name]!r}, kinematics give "
                                          f"{float(val)!r} at ori={ori} cori={cori} f={f} bias={b} gyro={w} g={g} dt={dt} (cse={case['cse']})"})
            # partially named inputs (the repository's own IMU tests build Control.from_dict({f_3: -9.81})): everything that is not
            # named is zero, whatever freed buffers of the same size contain
            if not fails:
                import numpy as np
                st_names, ct_names = pyimpl.names_of(mdl.State), pyimpl.names_of(mdl.Control)
                for oi, ori in enumerate(QUATS[4:6]):
                    ori = tuple(F(x) for x in ori)
                    f_, w_ = (F(0), F(0), F(-157, 16)), (F(0), F(1, 2), F(0))
                    dt = DTS[oi % 2]
                    zero3 = (F(0), F(0), F(0))
                    exp = expected_by_name(reference(ori, cori, list(f_), [F(x) for x in b], list(w_), g, dt, zero3, zero3))
                    env = env_of(ori, cori, f_, b, w_, g, dt, zero3, zero3)
                    skw = {s_: float(env[s_]) for s_ in NAMES["ori"] if env[s_] != 0}
                    ckw = {c_: float(env[c_]) for c_ in ct_names if env[c_] != 0}
                    g1, g2 = np.full((len(st_names), 1), 777.25), np.full((len(ct_names), 1), -333.5)
                    del g1, g2
                    try:
                        out = mdl.model(float(dt), mdl.State(**skw), mdl.Control(**ckw))
                    except Exception as e:
                        fails.append({"key": f"model-raises:{type(e).__name__}:partial", "what": f"compiled strapdown model raised {e!r} on partially named inputs"[:300]})
                        break
                    got = pyimpl.vec_by_name(out)
                    for name, val in exp.items():
                        n += 1
                        if not pyimpl.close(got[name], float(val), 1e-9, abs(float(val))):
                            if not any(fl["key"] == f"compiled-partial:{name}" for fl in fails):
                                fails.append({"key": f"compiled-partial:{name}", "what": f"State({sorted(skw)}) / Control({sorted(ckw)}) with every other entry left to "
                                              f"its default: {name} = {got[name]!r}, kinematics with zeros there give {float(val)!r} (cse={case['cse']})"})
            # the same compiled model fed from single-precision buffers (State.from_data / Control.from_data on float32 arrays whose
            # values use the whole 24-bit mantissa): the model is still evaluated in double precision, on exactly those values
            if not fails:
                import numpy as np
                for oi, ori in enumerate(QUATS[4:7] + QUATS[-1:]):
                    f32 = lambda seq, k_: tuple(F(float(np.float32(float(x_) * 1.0009765625 + 0.0123 * (i_ + 1 + k_)))) for i_, x_ in enumerate(seq))
                    ori32, f_, w_ = f32(ori, 0), f32(FBW[5][0], 1), f32(FBW[5][2], 2)
                    p32, v32 = f32((F(1, 2), F(-3, 4), F(5, 8)), 3), f32((F(-1, 4), F(3, 2), F(7, 8)), 4)
                    dt = DTS[oi % 2]
                    exp = expected_by_name(reference(ori32, cori, list(f_), [F(x) for x in b], list(w_), g, dt, p32, v32))
                    env = env_of(ori32, cori, f_, b, w_, g, dt, p32, v32, rates0=(5, -7, 11), a0=(13, -17, 19))
                    st_names, ct_names = pyimpl.names_of(mdl.State), pyimpl.names_of(mdl.Control)
                    try:
                        out = mdl.model(float(dt), mdl.State.from_data(np.array([[float(env[s_])] for s_ in st_names], dtype=np.float32)),
                                        mdl.Control.from_data(np.array([[float(env[c_])] for c_ in ct_names], dtype=np.float32)))
                    except Exception as e:
                        fails.append({"key": f"model-raises:{type(e).__name__}:float32", "what": f"compiled strapdown model raised {e!r} on float32 buffers"[:300]})
                        break
                    got = pyimpl.vec_by_name(out)
                    for name, val in exp.items():
                        n += 1
                        if not pyimpl.close(got[name], float(val), 1e-9, abs(float(val))):
                            if not any(fl["key"] == f"compiled-float32:{name}" for fl in fails):
                                fails.append({"key": f"compiled-float32:{name}", "what": f"compiled model fed from float32 buffers: {name} = {got[name]!r}, kinematics "
                                              f"on the same values give {float(val)!r} (relative error {abs(got[name] - float(val)) / max(abs(float(val)), 1e-300):.2e}; cse={case['cse']})"})
    return {"n": n, "fails": fails, "sigs": [f"compiled:{case['cse']}:{i}" for i in range(n // 16)],
            "outcomes": ["compiled-evaluated"], "sample": {"kind": "compiled", "cse": case["cse"], "points": n // 16}}


def eval_case(case):
    if case["kind"] == "exact":
        return eval_exact(case)
    if case["kind"] == "compiled":
        return eval_compiled(case)
    from fv.props import c19_lattice
    return c19_lattice.eval_case(case)


REQUIRED_OUTCOMES = ["exact-evaluated", "compiled-evaluated"]
