"""C11, C++ runtime: tick histories enumerated on the reference fold's state graph, replayed on the real
ManagedFilter.h (recording Impl) and compared call-by-call with the fold and with the Python runtime's trace."""
from __future__ import annotations

from fv import cppharness, managed_cpp

KEYID = {"a": 0, "b": 1, "n": 2}


def cases(tier, seed):
    # all four control x calibration instantiations (four separately written branches of the header); quick: two of them from one
    # start time only
    for combo in [0, 1, 2, 3]:
        for t0 in ((0.0, 10.0) if (tier != "quick" or combo in (0, 3)) else (10.0,)):
            yield {"runtime": "cpp", "combo": combo, "t0": t0, "tier": tier, "depth": 3}
    yield {"runtime": "cpp", "combo": 0, "t0": 2.0 ** 30, "tier": "quick", "depth": 2, "h": 0.125}
    yield {"runtime": "cpp", "combo": "refuse"}


def histories(tier, t0, depth):
    """all transition histories of the reference model's held-time graph: BFS, one history per (state, tick)"""
    from fv.props import c11
    menu = c11.tick_menu(tier)
    seen = {round(t0 / (c11.H / 2))}
    frontier = [(t0, [])]
    out = []
    for level in range(depth):
        nxt = []
        for held, hist in frontier:
            for ev in menu:
                o, readings = c11.concrete(held, ev, len(hist))
                h2 = hist + [(o, readings)]
                out.append(h2)
                new_held = readings[-1][0] if readings else held
                c = round(new_held / (c11.H / 2))
                if c not in seen:
                    seen.add(c)
                    nxt.append((new_held, h2))
        frontier = nxt
    return out, len(seen)


def terms_from_log(entries, id2term, has_ctl, has_cal, calv, fails, ctx):
    for e in entries:
        if e[0] == "P":
            _, nid, dt, inid, ctl, cal = e
            s = id2term[inid]
            id2term[nid] = ("P", dt, s, s, ctl if has_ctl else None)
        else:
            _, nid, key, zid, inid, cal = e
            s = id2term[inid]
            if nid != inid:  # nid == inid: the reading was rejected, estimate passed through unchanged
                id2term[nid] = ("S", key, ("Z", zid), s, s)
        if cal != (calv if has_cal else -1):
            fails.append(("calibration-not-forwarded:cpp", f"filter call received calibration {cal}, constructed with {calv}: {ctx}"))


def eval_case(case):
    from fv.props import c11
    c11.H = case.get("h", 0.1)
    if case["combo"] == "refuse":
        # a control model ticked without control must not compile (C++ refusal is static)
        src = '''#include <formak/runtime/ManagedFilter.h>
struct SV{}; struct Ctl{}; struct I; struct RB{ virtual SV sensor_model(const I&, const SV&) const = 0; };
struct I{ struct Tag{ using StateAndVarianceT=SV; using CalibrationT=std::false_type; using ControlT=Ctl; using StampedReadingBaseT=RB;
 static constexpr double max_dt_sec=0.1;}; SV process_model(double,const SV& s,const Ctl&) const {return s;} };
int main(){ formak::runtime::ManagedFilter<I> mf(0.0, SV{}); %s return 0; }
'''
        import os, subprocess
        from fv import core
        fails, n = [], 0
        with cppharness.Scratch() as sc:
            for name, body, should_compile in [("tick(t)", "mf.tick(1.0);", False),
                                               ("tick(t, readings)", "std::vector<formak::runtime::ManagedFilter<I>::StampedReading> r; mf.tick(1.0, r);", False),
                                               ("tick(t, control)", "mf.tick(1.0, Ctl{});", True)]:
                path = os.path.join(sc.dir, "r.cpp")
                open(path, "w").write(src % body)
                p = subprocess.run([cppharness.CXX, "-std=c++17", "-w", "-fsyntax-only", "-I",
                                    os.path.join(core.REPO, "cpp/runtime/include"), path], capture_output=True, text=True)
                n += 1
                if (p.returncode == 0) != should_compile:
                    fails.append({"key": f"control-refusal:cpp:{name}", "what": f"{name} on a control model "
                                  f"{'compiled' if p.returncode == 0 else 'did not compile'}: {cppharness.first_error(p.stderr)}"})
        return {"n": n, "fails": fails, "outcomes": ["cpp-refusal-checked"], "sigs": ["cpp-refuse"]}

    combo, t0 = case["combo"], case["t0"]
    has_ctl, has_cal = managed_cpp.COMBOS[combo]
    ctl_py = "u1" if has_ctl else None
    calv = 7
    if "history" in case:
        hists = [[(o, [tuple(r) for r in rs]) for o, rs in case["history"]]]
        nstates = 1
    else:
        hists, nstates = histories(case["tier"], t0, case["depth"])
    fails = []
    n = 0
    with cppharness.Scratch() as sc:
        exe, err = managed_cpp.build(sc.dir, combo)
        if exe is None:
            return {"n": 1, "fails": [{"key": f"does-not-compile:cpp:combo{combo}", "what": cppharness.first_error(err)}]}
        lines = []
        for hist in hists:
            lines.append(f"NEW {t0!r} {calv}")
            for ti, (o, readings) in enumerate(hist):
                toks = [f"TICK {o!r} 3 {len(readings) if (readings or ti % 2 == 0) else -1}"]
                for (rt, key, z) in readings:
                    zi = int(z[1:].split("_")[0]) * 10 + int(z.split("_")[1])
                    toks.append(f"{rt!r} {KEYID[key]} {zi}")
                lines.append(" ".join(toks))
        rc, out, err = managed_cpp.run(exe, combo, c11.H, lines)
        if rc != 0:
            return {"n": 1, "fails": [{"key": f"driver-exit:cpp:combo{combo}", "what": f"exit {rc} {err[:200]}"}]}
        recs = managed_cpp.split_ticks(out)
    ri = 0
    data_of = lambda key, z: ("Z", int(z[1:].split("_")[0]) * 10 + int(z.split("_")[1]))
    for hist in hists:
        assert recs[ri][0] == "NEW"
        ri += 1
        id2term = {0: ("init", 0)}
        held = (t0, ("init", 0))
        bad = []
        py_trace = None
        for ti, (o, readings) in enumerate(hist):
            _, log, ret = recs[ri]
            ri += 1
            terms_from_log(log, id2term, has_ctl, has_cal, calv, bad, hist)
            rr = [(rt, KEYID[key], z) for rt, key, z in readings]
            held_before = held[0]
            held, exp = c11.ref_tick(held[0], held[1], o, rr, 3 if has_ctl else None, data_of)
            if ti < len(hist) - 1:
                continue  # prefix ticks were checked as their own history
            n += 1
            try:
                got = c11.drop_small(c11.nf(id2term[ret]))
                if not c11.same(got, c11.drop_small(exp)):
                    bad.append(("tick-result:cpp", f"cpp combo{combo}: tick {ti} (output {o}, readings {readings}) returned "
                                f"{c11.show(got)}; fold gives {c11.show(c11.drop_small(exp))}; history {hist}"))
            except c11.Mismatch as e:
                bad.append(("estimate-threading:cpp", f"{e}; history {hist}"))
            # same call sequence as the Python runtime for the same history
            _, impl, _ = c11.run_history(hist, t0, ctl_py)
            py_calls = collapse(impl.calls)
            cpp_calls = collapse([("P", e[2]) if e[0] == "P" else ("S", "abn"[e[2]]) for r in recs[ri - len(hist):ri] for e in r[1]])
            tick_calls = [("P", e[2]) if e[0] == "P" else ("S", "abn"[e[2]]) for e in log]
            for k_, w_ in c11.check_moves(tick_calls, held_before, o, readings, "cpp"):
                bad.append((k_, f"cpp combo{combo}: {w_}; history {hist}"))
            if not same_calls(py_calls, cpp_calls):
                bad.append(("py-cpp-call-trace-differs", f"history {hist}: python calls {py_calls} vs C++ calls {cpp_calls}"))
        for k, w in bad[:2]:
            fails.append({"key": k, "what": w,
                          "replay_case": dict(case, history=[[o, [list(r) for r in rs]] for o, rs in hist])})
        if len(fails) > 6:
            break
    seen, uniq = set(), []
    for f in fails:
        if f["key"] not in seen:
            seen.add(f["key"])
            uniq.append(f)
    return {"n": n, "fails": uniq, "sigs": [f"cpp{combo}:{t0}:{i}" for i in range(n)],
            "counters": {"states": nstates, "transitions": n, "cpp_histories_replayed": n},
            "outcomes": [f"cpp-combo{combo}", "cpp-explored"],
            "sample": {"runtime": "cpp", "combo": {"control": has_ctl, "calibration": has_cal}, "t0": t0, "histories": n,
                       "example": [[o, rs] for o, rs in hists[len(hists) // 2]]}}


def collapse(calls):
    """merge consecutive P steps (the split is C10's business), drop |dt| <= 1e-9"""
    out = []
    for c in calls:
        if c[0] == "P" and out and out[-1][0] == "P":
            out[-1] = ("P", out[-1][1] + c[1])
        else:
            out.append(c)
    return [c for c in out if not (c[0] == "P" and abs(c[1]) <= 1e-9)]


def same_calls(a, b):
    if len(a) != len(b):
        return False
    for x, y in zip(a, b):
        if x[0] != y[0]:
            return False
        if x[0] == "P" and abs(x[1] - y[1]) > 2e-9:
            return False
        if x[0] == "S" and x[1] != y[1]:
            return False
    return True
