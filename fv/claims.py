"""What MANIFEST.json claims per property (pure data; tools/gen_manifest.py renders it)."""

CLAIMS = {
    "C01": dict(
        category="exploration",
        ref="4/C01",
        technique="bounded exhaustive enumeration (programs x dyadic grid x CSE settings) on the real code vs reference interpreter",
        text="Every program of the BIND/OPS/CSE families x full dyadic grid x both CSE settings is executed on the real "
        "python.compile(...).model and compared by name with an independent tree-walking interpreter; exhaustive within "
        "the stated program/grid bound - the right level for a property quantified over programs x inputs x configurations.",
        note="Trusted: mpmath arithmetic and our 60-line interpreter (self-tested against sympy.N and finite differences). "
        "Programs limited to the grammar and depth 3; inputs on the dyadic grid; singular points skipped and counted.",
    ),
    "C03": dict(
        category="exploration",
        ref="4/C03",
        technique="bounded exhaustive enumeration (programs x sensor shapes x dyadic grid x CSE) on the real filter vs forward-mode reference derivatives",
        text="All 27 process shapes and rectangular sensor shapes (readings != states, calibration present) are compiled with "
        "python.compile_ekf and every Jacobian entry is compared, at every grid point, with dual-number derivatives of our "
        "own AST in sorted-name layout; exhaustive within the bound.",
        note="Trusted: the reference interpreter (self-tested against finite differences). Bounds as C01.",
    ),
    "C04": dict(
        category="exploration",
        ref="4/C04",
        technique="bounded exhaustive enumeration (programs x covariance menu x dt x dyadic grid x CSE) on the real process_model vs exact reference EKF",
        text="Every program x covariance x dt x grid point is run through the real ExtendedKalmanFilter.process_model and the "
        "returned state (by name) and every covariance entry are compared with G P G^T + V M V^T computed in 50-digit "
        "arithmetic from forward-mode derivatives and the name-keyed noise; inputs are snapshotted and the call repeated.",
        note="Trusted: reference interpreter and 20-line matrix algebra (self-tested). SPD covariances with condition <= 1e4.",
    ),
    "C05": dict(
        category="exploration",
        ref="4/C05",
        technique="bounded exhaustive enumeration (programs x rectangular sensor sets x covariance menu x reading offsets x grid) on the real sensor_model vs exact reference Kalman update",
        text="Every sensor of every program x covariance x state point x reading offset is run through the real "
        "ExtendedKalmanFilter.sensor_model; x+, every P+ entry, the recorded innovation and S are compared with the textbook "
        "update in 50-digit arithmetic with Q = diag(noise by reading name); corollaries checked as separate invariants.",
        note="Trusted: reference interpreter and matrix algebra (self-tested against scalar closed forms). SPD covariances, condition <= 1e4.",
    ),
    "C06": dict(
        category="exploration",
        ref="4/C06",
        technique="exhaustive enumeration of (dimension, threshold, boundary NIS case) on the real Python filter, the C++ helper and the generated C++ filter, with exact-NIS constructions at +-1 ulp of the boundary",
        text="For every m and k (and disabled) the decision is observed at NIS = T-1ulp, T, T+1ulp and far values, on "
        "remove_innovation, on sensor_model (discard = inputs returned bit-equal with innovation still recorded), on "
        "removeInnovation<m> compiled from innovation_filtering.h and on the generated C++ sensor_model; all decisions "
        "must equal NIS > T and each other.",
        note="Trusted: IEEE double arithmetic of the host for the oracle; boundary inputs are constructed so the NIS is exact in "
        "any summation order. C++ side compiled against the vendored Eigen stand-in (DESIGN 2.4).",
    ),
    "C09": dict(
        category="model_checking",
        ref="4/C09",
        technique="explicit-state breadth-first search over (estimate, covariance) states of the real compiled filter, all predict/update event sequences to depth 4/5 from 5-6 initial covariances per model, invariant checked on every transition",
        text="Explicit-state exploration directly on the implementation: every event sequence over the predict/update "
        "alphabet up to the depth bound is executed with real process_model / sensor_model calls from every initial "
        "covariance (incl. rank-deficient and 2^20-spread ones) of singular-Jacobian and nonlinear models; symmetry and "
        "relative positive semi-definiteness are evaluated in every reached state, and any refusal is a violation.",
        note="No separate model: the transition function is the code, so traces_validated_against_impl = transitions. "
        "Bounded depth; states canonicalised to 10 significant digits; unbounded (>1e6) states not expanded.",
    ),
    "C10": dict(
        category="model_checking",
        ref="4/C10",
        technique="explicit-state search of the complete held-time transition graph (every tick over a boundary-rich time grid from every reachable held time) on the real Python and C++ runtimes with recording stand-in filters",
        text="The state of the managed filter relevant to stepping is its held time; for every max step and start time the "
        "complete transition relation over a grid containing exact multiples, +-2^-20 relative neighbours, sub-resolution "
        "offsets and backward targets is executed through real tick() calls (Python runtime.py; ManagedFilter.h compiled "
        "against recording Impls) and the step-plan invariant is evaluated on every move.",
        note="The wrapped filter is a stand-in that records dt arguments; the runtimes are the real, unmodified sources. "
        "C++ built with g++ -std=c++17 (ManagedFilter.h does not need Eigen).",
    ),
    "C11": dict(
        category="model_checking",
        ref="4/C11",
        technique="explicit-state BFS over tick histories (every output time x every reading list up to length 2/3 from every reachable held time, depth 3) on the real Python and C++ runtimes with a symbolic stand-in filter, each transition compared with a reference fold",
        text="The stand-in filter returns symbolic terms, so each tick's return value records the exact composition of filter "
        "calls; every tick of the bounded alphabet from every reachable held time is executed on the real runtime and "
        "compared with the 6-line reference fold (result, held time, held estimate); reading-less ticks are checked "
        "differentially; Python and C++ call traces are compared for the same histories.",
        note="Exploration is on the implementation (traces_validated_against_impl = transitions). Consecutive prediction steps "
        "are collapsed (their split is C10). C++ compiled with g++ from the unmodified ManagedFilter.h.",
    ),
    "C02": dict(
        category="exploration",
        ref="4/C02",
        technique="bounded exhaustive enumeration of programs (all control x calibration combinations, 0..3 sensors x 1..3 readings, CSE on/off): real formak.cpp output compiled with g++ and executed, every function result compared by name with the reference interpreter",
        text="Every program of the families is generated by the public cpp.compile_ekf / cpp.compile entry points, compiled "
        "(a compile error on a valid definition is a violation) and run; all seven kinds of generated function are "
        "compared entry-by-entry at 8 all-distinct points with exact partial derivatives and the configured noise, inputs "
        "set through named Options fields and outputs read through named accessors; unassigned entries show as NaN.",
        note="Eigen and Bazel are absent: compiled against a ~150-line vendored stand-in for the Eigen slice the generator uses "
        "(fixed sizes, dimension errors are compile errors, NaN-poisoned default construction, bounds-checked access).",
    ),
    "C08": dict(
        category="exploration",
        ref="4/C08",
        technique="bounded exhaustive enumeration of CSE-heavy programs x grid, CSE on vs off vs reference on the real Python filter and the compiled generated C++, plus a def-use pass over every generated function body",
        text="Every program of the CSE family (the only place sympy.cse produces ordered, nested temporaries) is evaluated "
        "with CSE on and off: model, all Jacobians, process_model and sensor_model in Python on the full grid, and all "
        "generated functions in C++; results must agree with each other and with the reference; the generated C++ text is "
        "scanned so that each local is declared once, before use, from parameters and earlier locals only.",
        note="Python temporaries are checked behaviourally (use-before-assignment raises at the first evaluation). C++ via the Eigen stand-in.",
    ),
    "C07": dict(
        category="exploration",
        ref="4/C07",
        technique="exhaustive enumeration of all predict/update event sequences up to length 3 per (program, CSE, threshold) on the real Python filter, each step replayed on the compiled generated C++ filter and compared by name",
        text="For every program/configuration every event sequence up to the depth bound is executed on the Python filter and "
        "each step is re-executed by the generated C++ filter on bit-identical inputs; state, covariance, stored innovation "
        "and accept/reject must agree to rounding, with inputs set and outputs read through named fields on both sides.",
        note="C++ compiled against the Eigen stand-in (Gauss-Jordan inverse; numpy uses LAPACK) - agreement is required to 1e-9 "
        "relative, far above the difference between the two inverses on the well-conditioned inputs used.",
    ),
    "C12": dict(
        category="exploration",
        ref="4/C12",
        technique="exhaustive enumeration of filter configurations (control x calibration x sensor sets x max step x models) and of a complete tick scenario menu (all ordered reading pairs x timestamps), compiled against the real ManagedFilter.h and compared with a hand-made fold",
        text="Each generated filter is compiled with the unmodified ManagedFilter.h (compatibility static_assert, all tick "
        "overloads) and driven through a scenario menu covering reading-less, empty-vector, single and all ordered pairs of "
        "readings in and out of order; a derived recorder yields the step list, the driver recomputes every tick by hand with "
        "process_model / sensor_model in fold order, and both results must agree to 1e-12 with steps satisfying C10.",
        note="Compiled against the Eigen stand-in. The recorder derives from the generated filter and only logs; readings derive "
        "from the generated reading types and only log.",
    ),
    "C13": dict(
        category="exploration",
        ref="4/C13",
        technique="exhaustive enumeration of name lists x keyword subsets x keyword orders for the constructors, and of all sort-order permutations via renamings (plus declaration order/container flips) for models, compared output-by-name on the real Python code and the compiled C++",
        text="Construction: every subset of a 10-name pool (upper/lower/digit/underscore orderings) up to size 3, every keyword "
        "subset in every order, unknown names and wrong shapes. Metamorphic: for each base program every permutation of the "
        "internal layout is realised by a renaming; the renamed, re-ordered, container-flipped twin must give the same named "
        "outputs in Python and in compiled C++.",
        note="Names avoid identifiers the generator reserves in C++. C++ via the Eigen stand-in.",
    ),
    "C14": dict(
        category="fault_enumeration",
        ref="4/C14",
        technique="exhaustive enumeration of every single structural fault (and every pair of different kinds) at every applicable position of 8 valid seed definitions, presented to all four compile entry points",
        text="Deviation-bounded enumeration: 0 faults (valid seeds must be accepted and produce output), every 1-fault variant, "
        "then every 2-fault variant of different kinds, each presented to python.compile, python.compile_ekf, cpp.compile and "
        "cpp.compile_ekf; a faulty definition must raise and leave nothing behind.",
        note="Any exception type counts as refusal. Seeds are small BIND programs; the fault menu is the property's list.",
    ),
    "C15": dict(
        category="exploration",
        ref="4/C15",
        technique="exhaustive matrix of definitions x declaration-order/container variants x PYTHONHASHSEED values (one interpreter process per seed), comparing full generated text and Python layout",
        text="Every cell of the (definition, declaration order, container, hash seed) matrix is generated by the real entry "
        "points in a fresh interpreter; all cells of one definition must produce byte-identical header/source (EKF and "
        "model-only) and an identical Python layout. Differences are reported with a unified diff.",
        note="Hash seeds 0..7 quick, 0..63 thorough; the seed space (2^32) is sampled by enumeration of a prefix - set iteration "
        "order of <= 8 symbols takes few distinct values, which 64 seeds cover with overwhelming likelihood but not provably.",
    ),
    "C16": dict(
        category="exploration",
        ref="4/C16",
        technique="exhaustive enumeration of models x sensor sets x thresholds x all data matrices of <= 3 rows over a 3-row alphabet on the real adapter, against the exported filter run by hand and the reference EKF",
        text="Every data matrix of the bounded alphabet is pushed through the real SklearnEKFAdapter.transform / mahalanobis / "
        "score; results must equal the NIS of the exported filter run by hand in sorted key order with dt = 0.1 and, "
        "independently, the reference EKF with the innovation gate; score components follow the documented formula; "
        "parameters are snapshotted around every call.",
        note="The hand-run uses the filter returned by export_python(); the reference EKF is the 50-digit textbook filter.",
    ),
    "C17": dict(
        category="exploration",
        ref="4/C17",
        technique="exhaustive enumeration of Config field x value (singles and all cross-field pairs) for set_params, round-trips and clone on 8 estimators, and of a fixed menu of (estimator, training matrix) fits, on the real adapter",
        text="Parameter half is a complete enumeration of the Config field/value domain (every single and every pair of fields) "
        "with exact before/after comparison of all parameters; fit half runs every pair of the menu and classifies the "
        "outcome: only MinimizationFailure or a retuned-noise estimator with unchanged structure are allowed.",
        note="Each objective evaluation recompiles the filter; 12 (estimator, matrix) pairs quick, 48 thorough.",
    ),
    "C18": dict(
        category="model_checking",
        ref="4/C18",
        technique="explicit-state BFS over the real workflow objects (every available transition executed), search() compared with shortest paths of the executed graph for every (state, target) pair; exhaustive menu of hyper-parameter grids and too-small data sets for fit_model",
        text="The workflow's reachable state graph is built by executing every offered transition on the real objects; in every "
        "state the history and the result of search() towards every StateId (and non-StateId targets) are checked against "
        "the executed graph. fit_model is run on every grid of a menu over the supported hyper-parameters and on every "
        "too-small data size; the selected configuration must come from the grid and be exported unchanged.",
        note="The graph is tiny (3 states); the value of the exploration is that nothing about it is hard-coded except the declared "
        "order Start -> Symbolic_Model -> Fit_Model.",
    ),
    "C19": dict(
        category="exploration",
        ref="4/C19",
        technique="exhaustive evaluation of the real symbolic model in exact rational arithmetic on a product grid of (non-unit) quaternions x force/bias/gyro menus x g x dt against an independent quaternion-algebra reference; compiled model checked on a sub-grid",
        text="All 16 update expressions are compared for exact equality (Fractions, no tolerance) with a 25-line reference at "
        "every point of the product grid, which contains non-unit and dense quaternions so the |q|^2 normalisation, the "
        "composition order, conjugation signs, bias sign, gravity sign and the dt integrals are each pinned by several "
        "points; the compiled Python model is evaluated in floats against the same reference.",
        note="Reference = Hamilton product, rotation q v q*/|q|^2, constant-acceleration integrals. Exactness relies on the "
        "model's float coefficients being dyadic.",
    ),
}
