"""What MANIFEST.json claims per property (pure data; tools/gen_manifest.py renders it)."""

CLAIMS = {
    "C01": dict(
        category="exploration",
        ref="4/C01",
        technique="bounded exhaustive enumeration (programs x dyadic grid x CSE settings) on the real code vs reference interpreter",
        text="Every program of the BIND/OPS/CSE families x full dyadic grid x both CSE settings is executed on the real "
        "python.compile(...).model and compared by name with an independent tree-walking interpreter; exhaustive within "
        "the stated program/grid bound - the right level for a property quantified over programs x inputs x configurations.",
        note="Trusted: mpmath arithmetic and our 60-line interpreter (self-tested against sympy.N and finite differences). "
        "Programs limited to the grammar and depth 3; inputs on the dyadic grid; singular points skipped and counted.",
    ),
}
