"""What MANIFEST.json claims per property (pure data; tools/gen_manifest.py renders it)."""

CLAIMS = {
    "C01": dict(
        category="exploration",
        ref="4/C01",
        technique="bounded exhaustive enumeration (programs x dyadic grid x CSE settings) on the real code vs reference interpreter",
        text="Every program of the BIND/OPS/CSE families x full dyadic grid x both CSE settings is executed on the real "
        "python.compile(...).model and compared by name with an independent tree-walking interpreter; exhaustive within "
        "the stated program/grid bound - the right level for a property quantified over programs x inputs x configurations.",
        note="Trusted: mpmath arithmetic and our 60-line interpreter (self-tested against sympy.N and finite differences). "
        "Programs limited to the grammar and depth 3; inputs on the dyadic grid; singular points skipped and counted.",
    ),
    "C03": dict(
        category="exploration",
        ref="4/C03",
        technique="bounded exhaustive enumeration (programs x sensor shapes x dyadic grid x CSE) on the real filter vs forward-mode reference derivatives",
        text="All 27 process shapes and rectangular sensor shapes (readings != states, calibration present) are compiled with "
        "python.compile_ekf and every Jacobian entry is compared, at every grid point, with dual-number derivatives of our "
        "own AST in sorted-name layout; exhaustive within the bound.",
        note="Trusted: the reference interpreter (self-tested against finite differences). Bounds as C01.",
    ),
    "C04": dict(
        category="exploration",
        ref="4/C04",
        technique="bounded exhaustive enumeration (programs x covariance menu x dt x dyadic grid x CSE) on the real process_model vs exact reference EKF",
        text="Every program x covariance x dt x grid point is run through the real ExtendedKalmanFilter.process_model and the "
        "returned state (by name) and every covariance entry are compared with G P G^T + V M V^T computed in 50-digit "
        "arithmetic from forward-mode derivatives and the name-keyed noise; inputs are snapshotted and the call repeated.",
        note="Trusted: reference interpreter and 20-line matrix algebra (self-tested). SPD covariances with condition <= 1e4.",
    ),
    "C05": dict(
        category="exploration",
        ref="4/C05",
        technique="bounded exhaustive enumeration (programs x rectangular sensor sets x covariance menu x reading offsets x grid) on the real sensor_model vs exact reference Kalman update",
        text="Every sensor of every program x covariance x state point x reading offset is run through the real "
        "ExtendedKalmanFilter.sensor_model; x+, every P+ entry, the recorded innovation and S are compared with the textbook "
        "update in 50-digit arithmetic with Q = diag(noise by reading name); corollaries checked as separate invariants.",
        note="Trusted: reference interpreter and matrix algebra (self-tested against scalar closed forms). SPD covariances, condition <= 1e4.",
    ),
    "C06": dict(
        category="exploration",
        ref="4/C06",
        technique="exhaustive enumeration of (dimension, threshold, boundary NIS case) on the real Python filter, the C++ helper and the generated C++ filter, with exact-NIS constructions at +-1 ulp of the boundary",
        text="For every m and k (and disabled) the decision is observed at NIS = T-1ulp, T, T+1ulp and far values, on "
        "remove_innovation, on sensor_model (discard = inputs returned bit-equal with innovation still recorded), on "
        "removeInnovation<m> compiled from innovation_filtering.h and on the generated C++ sensor_model; all decisions "
        "must equal NIS > T and each other.",
        note="Trusted: IEEE double arithmetic of the host for the oracle; boundary inputs are constructed so the NIS is exact in "
        "any summation order. C++ side compiled against the vendored Eigen stand-in (DESIGN 2.4).",
    ),
    "C09": dict(
        category="model_checking",
        ref="4/C09",
        technique="explicit-state breadth-first search over (estimate, covariance) states of the real compiled filter, all predict/update event sequences to depth 4/5 from 5-6 initial covariances per model, invariant checked on every transition",
        text="Explicit-state exploration directly on the implementation: every event sequence over the predict/update "
        "alphabet up to the depth bound is executed with real process_model / sensor_model calls from every initial "
        "covariance (incl. rank-deficient and 2^20-spread ones) of singular-Jacobian and nonlinear models; symmetry and "
        "relative positive semi-definiteness are evaluated in every reached state, and any refusal is a violation.",
        note="No separate model: the transition function is the code, so traces_validated_against_impl = transitions. "
        "Bounded depth; states canonicalised to 10 significant digits; unbounded (>1e6) states not expanded.",
    ),
}
