"""Reference quantities of an EKF definition in the library's documented name order (sorted names)."""
from __future__ import annotations

from fv import refmodel as R
from fv import space


class RefEKF:
    def __init__(self, d):
        self.d = d
        self.st, self.ca, self.ct = space.def_symbols(d)
        self.cal = {k: v for k, v in d["calmap"]}
        self.f = {k: a for k, a in d["model"]}
        self.pn = {k: v for k, v in d["pnoise"]}
        self.h = {k: {r: a for r, a in rs} for k, rs in d["sensors"]}
        self.sn = {k: {r: v for r, v in rs} for k, rs in d["snoise"]}

    def env(self, point):
        e = dict(point)
        e.update(self.cal)
        return e

    def fx(self, env):
        return [R.ref_eval(self.f[s], env) for s in self.st]

    def G(self, env):
        return R.ref_jac([self.f[s] for s in self.st], env, self.st)

    def V(self, env):
        return R.ref_jac([self.f[s] for s in self.st], env, self.ct)

    def Mn(self):
        return R.diag([self.pn[c] for c in self.ct])

    def readings(self, key):
        return sorted(self.h[key])

    def hx(self, key, env):
        return [R.ref_eval(self.h[key][r], env) for r in self.readings(key)]

    def H(self, key, env):
        return R.ref_jac([self.h[key][r] for r in self.readings(key)], env, self.st)

    def Q(self, key):
        return R.diag([self.sn[key][r] for r in self.readings(key)])

    def predict(self, env, P):
        return self.fx(env), R.ekf_predict(self.G(env), P, self.V(env), self.Mn())

    def update(self, key, env, P, z):
        return R.ekf_update([R.mp.mpf(env[s]) for s in self.st], P, self.H(key, env), self.Q(key), z, self.hx(key, env))


# covariance menu (name-order matrices as nested float lists), all dyadic so inputs are exact
def cov_menu(n, tier="quick"):
    import itertools

    out = []
    out.append(("I", [[1.0 if i == j else 0.0 for j in range(n)] for i in range(n)]))
    dvals = [0.5, 2.0, 0.25, 4.0, 1.5, 0.75]
    out.append(("diag", [[dvals[i] if i == j else 0.0 for j in range(n)] for i in range(n)]))
    A = [[1.0, 0.5, -0.25, 0.75, 0.25, -0.5], [0.0, 1.5, 0.5, -0.5, 0.75, 0.25], [0.25, -0.75, 1.0, 0.5, -0.25, 0.5],
         [0.5, 0.25, -0.5, 2.0, 0.5, -0.75], [-0.25, 0.5, 0.75, 0.25, 1.25, 0.5], [0.75, -0.5, 0.25, -0.25, 0.5, 1.75]]
    dense = [[sum(A[i][t] * A[j][t] for t in range(n)) + (0.25 if i == j else 0.0) for j in range(n)] for i in range(n)]
    out.append(("dense", dense))
    if tier == "thorough":
        out.append(("dense-1e3", [[1024.0 * v for v in r] for r in dense]))
        out.append(("dense-1e-3", [[v / 1024.0 for v in r] for r in dense]))
    if n >= 2:
        # rank-deficient PSD: v v^T
        v = [1.0, -0.5, 0.25, 2.0, -1.5, 0.75][:n]
        out.append(("rank1", [[v[i] * v[j] for j in range(n)] for i in range(n)]))
    return out
