"""Thin adapters: definition record -> the real formak Python API (public entry points only)."""
from __future__ import annotations

import numpy as np
import sympy

from formak import python as fpy
from formak import ui

_FN = {
    "sin": sympy.sin,
    "cos": sympy.cos,
    "tan": sympy.tan,
    "atan": sympy.atan,
    "tanh": sympy.tanh,
    "exp": sympy.exp,
    "log": sympy.log,
    "sqrt": sympy.sqrt,
    "asin": sympy.asin, "acos": sympy.acos, "atanh": sympy.atanh, "sinh": sympy.sinh, "cosh": sympy.cosh, "asinh": sympy.asinh,
    "acot": sympy.acot, "sec": sympy.sec, "csc": sympy.csc, "cot": sympy.cot,
}


def sym(name, assume=None):
    """the sympy symbol for a name; `assume`: {name or "*": {assumption: bool}} (a definition's "assume" record) - users may
    declare their symbols with sympy assumptions (real=True, ...), which makes them DIFFERENT objects from Symbol(name)"""
    a = (assume or {}).get(name, (assume or {}).get("*", {}))
    return sympy.Symbol(name, **a)


def to_sympy(ast, dt, assume=None):
    t = ast[0]
    if t == "sym":
        return sym(ast[1], assume)
    if t == "dt":
        return dt
    if t == "const":
        return sympy.Rational(ast[1], ast[2])
    if t == "fn":
        return _FN[ast[1]](to_sympy(ast[2], dt, assume))
    if t == "pow":
        return sympy.Pow(to_sympy(ast[1], dt, assume), sympy.Integer(ast[2]))
    if t == "clip":
        a, lo, hi = (to_sympy(x_, dt, assume) for x_ in ast[1:4])
        return sympy.Piecewise((lo, a < lo), (hi, a > hi), (a, True))
    a, b = to_sympy(ast[1], dt, assume), to_sympy(ast[2], dt, assume)
    if t == "add":
        return a + b
    if t == "sub":
        return a - b
    if t == "mul":
        return a * b
    if t == "div":
        return a / b
    if t == "atan2":
        return sympy.atan2(a, b)
    raise ValueError(t)


def _container(names, kind, assume=None):
    syms = [sym(n, assume) for n in names]
    return set(syms) if kind == "set" else list(syms)


def ui_model(d):
    A = d.get("assume")
    dt = sym("dt", A)
    sm = {}
    for k, a in d["model"]:
        e = to_sympy(a, dt, A)
        sm[sym(k, A)] = str(e) if d.get("as_strings") else e
    return ui.Model(
        dt=dt,
        state=_container(d["state"], d["container"], A),
        control=_container(d["control"], d["container"], A),
        state_model=sm,
        calibration=set(sym(n, A) for n in d["calibration"]),  # documented as a set (default set())
    )


def calmap(d):
    return {sym(k, d.get("assume")): v for k, v in d["calmap"]}


def pnoise(d):
    return {sym(k, d.get("assume")): v for k, v in d["pnoise"]}


def sensors(d):
    A = d.get("assume")
    dt = sym("dt", A)
    return {k: {r: to_sympy(a, dt, A) for r, a in rs} for k, rs in d["sensors"]}


def snoise(d):
    return {k: {r: v for r, v in rs} for k, rs in d["snoise"]}


def config(cfg):
    cfg = dict(cfg or {})
    kw = {}
    if "cse" in cfg:
        kw["common_subexpression_elimination"] = cfg["cse"]
    if "innovation_filtering" in cfg:
        kw["innovation_filtering"] = cfg["innovation_filtering"]
    if "max_dt_sec" in cfg:
        kw["max_dt_sec"] = cfg["max_dt_sec"]
    if "extra_validation" in cfg:
        kw["extra_validation"] = cfg["extra_validation"]
    if "python_modules" in cfg:
        kw["python_modules"] = tuple(cfg["python_modules"])
    return fpy.Config(**kw)


def py_model(d, cfg=None):
    return fpy.compile(ui_model(d), calmap(d), config=config(cfg))


def py_ekf(d, cfg=None):
    return fpy.compile_ekf(
        ui_model(d), pnoise(d), sensors(d), snoise(d), calmap(d), config=config(cfg)
    )


def names_of(cls):
    """name -> index map of a named vector/covariance class (the map the project's own tests use)"""
    return [str(a) for a in cls._arglist]


def vec_by_name(v):
    return {n: float(v.data[i, 0]) for i, n in enumerate(names_of(type(v)))}


def close(a, b, rel=1e-9, scale=1.0):
    a = float(a)
    b = float(b)
    if not (np.isfinite(a) and np.isfinite(b)):
        return False
    if scale < 1.0:  # caller asked for a comparison relative to a magnitude below 1
        return abs(a - b) <= rel * max(abs(b), scale)
    return abs(a - b) <= rel * max(1.0, abs(b), scale)
