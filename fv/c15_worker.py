"""Runs in its own process under a given PYTHONHASHSEED: generates C++ and the Python layout for definition variants
and prints one JSON line. Usage: python -m fv.c15_worker <json file with [ [vid, def], ... ]>"""
import hashlib
import json
import os
import sys


def main():
    jobs = json.load(open(sys.argv[1]))
    sys.argv = [sys.argv[0]]
    from fv import core, cppharness, pyimpl

    out = {}
    for vid, d in jobs:
        rec = {}
        with core.quiet():
            try:
                with cppharness.Scratch() as sc:
                    r, header, source = cppharness.generate(d, {}, sc.dir, "det", ekf=True)
                    rec["ekf_header"] = open(header).read()
                    rec["ekf_source"] = open(source).read()
                with cppharness.Scratch() as sc:
                    r, header, source = cppharness.generate(d, {}, sc.dir, "det", ekf=False)
                    rec["model_header"] = open(header).read()
                    rec["model_source"] = open(source).read()
                ekf = pyimpl.py_ekf(d)
                mdl = pyimpl.py_model(d)
                rec["layout"] = json.dumps({
                    "model.arglist": [str(a) for a in mdl.arglist],
                    "State": pyimpl.names_of(ekf.State), "Control": pyimpl.names_of(ekf.Control),
                    "Calibration": pyimpl.names_of(ekf.Calibration), "Covariance": pyimpl.names_of(ekf.Covariance),
                    "Readings": {k: pyimpl.names_of(ekf.sensor_models[k].Reading) for k in sorted(ekf.sensor_models)},
                    "calibration_vector": [float(v) for v in ekf.calibration_vector.ravel()],
                    "process_noise": ekf.process_noise.tolist(),
                }, sort_keys=True)
            except Exception as e:
                rec["error"] = f"{type(e).__name__}: {str(e)[:200]}"
        out[vid] = rec
    sys.stdout.write(json.dumps({"hashseed": os.environ.get("PYTHONHASHSEED"), "results": out}) + "\n")


if __name__ == "__main__":
    main()
