"""Runs in its own process under a given PYTHONHASHSEED: generates C++ and the Python layout for definition variants
and prints one JSON line. Usage: python -m fv.c15_worker <json file with [ [vid, def], ... ]>"""
import hashlib
import json
import os
import sys


def main():
    jobs = json.load(open(sys.argv[1]))
    sys.argv = [sys.argv[0]]
    from fv import core, cppharness, pyimpl

    out = {}
    for vid, d in jobs:
        rec = {}
        with core.quiet():
            try:
                with cppharness.Scratch() as sc:
                    r, header, source = cppharness.generate(d, {}, sc.dir, "det", ekf=True)
                    rec["ekf_header"] = open(header).read()
                    rec["ekf_source"] = open(source).read()
                with cppharness.Scratch() as sc:
                    r, header, source = cppharness.generate(d, {}, sc.dir, "det", ekf=False)
                    rec["model_header"] = open(header).read()
                    rec["model_source"] = open(source).read()
                ekf = pyimpl.py_ekf(d)
                mdl = pyimpl.py_model(d)
                rec["layout"] = json.dumps({
                    "model.arglist": [str(a) for a in mdl.arglist],
                    "State": pyimpl.names_of(ekf.State), "Control": pyimpl.names_of(ekf.Control),
                    "Calibration": pyimpl.names_of(ekf.Calibration), "Covariance": pyimpl.names_of(ekf.Covariance),
                    "Readings": {k: pyimpl.names_of(ekf.sensor_models[k].Reading) for k in sorted(ekf.sensor_models)},
                    "calibration_vector": [float(v) for v in ekf.calibration_vector.ravel()],
                    "process_noise": ekf.process_noise.tolist(),
                }, sort_keys=True)
            except Exception as e:
                rec["error"] = f"{type(e).__name__}: {str(e)[:200]}"
        out[vid] = rec
    # the same generations again with every clock this process can read moved forward (1 hour, then ~30 years): generated
    # text may not depend on when, or how long after start-up, it is generated
    import time, datetime
    real = (time.time, time.monotonic, time.perf_counter)
    done = set()
    try:
        for shift, tag in ((3600.0, "clock+1h"), (1.0e9, "clock+30y")):
            time.time = lambda r=real[0], s_=shift: r() + s_
            time.monotonic = lambda r=real[1], s_=shift: r() + s_
            time.perf_counter = lambda r=real[2], s_=shift: r() + s_
            for vid, d in jobs:
                di = vid.split(":")[0]
                if (di, tag) in done:
                    continue
                done.add((di, tag))
                with core.quiet():
                    try:
                        with cppharness.Scratch() as sc:
                            r, header, source = cppharness.generate(d, {}, sc.dir, "det", ekf=True)
                            out[vid][f"ekf_header@{tag}"] = open(header).read()
                            out[vid][f"ekf_source@{tag}"] = open(source).read()
                    except Exception as e:
                        out[vid][f"error@{tag}"] = f"{type(e).__name__}: {str(e)[:200]}"
    finally:
        time.time, time.monotonic, time.perf_counter = real
    # the same output PATHS used twice: a definition generated into a directory that already holds the output of a look-alike
    # (same names, hence the same header; other noise values and one other coefficient, hence another source) must give exactly
    # what it gives in an empty directory
    seen_defs = set()
    for vid, d in jobs:
        di = vid.split(":")[0]
        if di in seen_defs or len(seen_defs) >= 3 or not d.get("pnoise"):
            continue
        seen_defs.add(di)
        alike = json.loads(json.dumps(d))
        alike["pnoise"] = [[k_, v_ * 4.0 + 0.125] for k_, v_ in alike["pnoise"]]
        alike["snoise"] = [[k_, [[r_, v_ * 2.0 + 0.25] for r_, v_ in rs_]] for k_, rs_ in alike["snoise"]]
        with core.quiet():
            try:
                with cppharness.Scratch() as sc:
                    cppharness.generate(alike, {}, sc.dir, "det", ekf=True)
                    r, header, source = cppharness.generate(d, {}, sc.dir, "det", ekf=True)
                    out[vid]["ekf_header@reused-paths"] = open(header).read()
                    out[vid]["ekf_source@reused-paths"] = open(source).read()
            except Exception as e:
                out[vid]["error@reused-paths"] = f"{type(e).__name__}: {str(e)[:200]}"
    sys.stdout.write(json.dumps({"hashseed": os.environ.get("PYTHONHASHSEED"), "results": out}) + "\n")


if __name__ == "__main__":
    main()
