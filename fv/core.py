"""Runner, evidence writer, known-findings handling, replay files.

Every check is a module with
    ID, LEVEL, RULE, ASSUMPTIONS, TECHNIQUE
    cases(tier, seed)   -> iterable of JSON-serialisable case dicts (complete, deterministic enumeration)
    eval_case(case)     -> dict(n=<evaluations>, fails=[{key, what, detail}], sig=<hashable or None>,
                                nontrivial=<bool>, outcomes=[tags], counters={name: int}, sample=<json>)
    optional REQUIRED_OUTCOMES (vacuity guard), optional finalize(agg) -> extra coverage keys
The runner enumerates all cases, evaluates every one of them (16 workers) on the real code and aggregates.
"""
from __future__ import annotations

import contextlib
import hashlib
import io
import json
import multiprocessing as mp
import os
import subprocess
import sys
import time
import traceback

VERIF = os.environ.get("VERIF_HOME", "/verif")
REPO = os.environ.get("FORMAK_REPO", "/repo")
WORKERS = int(os.environ.get("VERIF_WORKERS", "16"))


def jhash(obj) -> str:
    return hashlib.sha256(json.dumps(obj, sort_keys=True, default=str).encode()).hexdigest()[:12]


@contextlib.contextmanager
def quiet():
    """formak prints diagnostics on stdout; keep the check's stdout for VIOLATION lines only."""
    buf = io.StringIO()
    with contextlib.redirect_stdout(buf):
        yield buf


def load_findings():
    path = os.path.join(VERIF, "known_findings.json")
    if not os.path.exists(path):
        return []
    with open(path) as f:
        return json.load(f)["findings"]


_MOD = None


class CaseTimeout(BaseException):
    pass


def _alarm(signum, frame):
    raise CaseTimeout()


CASE_TIMEOUT = int(os.environ.get("VERIF_CASE_TIMEOUT", "0"))


def _worker(case):
    import signal
    t0 = time.time()
    # a changed tree can make one case run (nearly) forever, e.g. a symbolic rewrite that explodes: every case runs under an
    # alarm and a case that does not finish is reported as a violation instead of hanging the check
    limit = CASE_TIMEOUT or int(getattr(_MOD, "CASE_TIMEOUT_S", 1200))
    try:
        signal.signal(signal.SIGALRM, _alarm)
        signal.alarm(limit)
    except (ValueError, AttributeError):
        pass
    try:
        with quiet():
            r = _MOD.eval_case(case)
    except CaseTimeout:
        r = {"n": 1, "fails": [{"key": "timeout:case-did-not-finish", "what": f"case did not finish within {limit} s: "
                                f"{json.dumps(case, default=str)[:300]}"}]}
    except BaseException as e:  # a crash while exercising the implementation is reported, never swallowed
        tb = traceback.format_exc()
        last = traceback.extract_tb(e.__traceback__)[-1]
        r = {
            "n": 1,
            "fails": [
                {
                    "key": f"crash:{type(e).__name__}:{os.path.basename(last.filename)}:{last.name}",
                    "what": f"{type(e).__name__}: {str(e)[:300]}",
                    "detail": tb[-3000:],
                }
            ],
        }
    try:
        signal.alarm(0)
    except (ValueError, AttributeError):
        pass
    r.setdefault("n", 1)
    r.setdefault("fails", [])
    r["wall"] = time.time() - t0
    return r


def pmap(mod, cases):
    global _MOD
    _MOD = mod
    if WORKERS <= 1 or len(cases) <= 1:
        for c in cases:
            yield _worker(c)
        return
    ctx = mp.get_context("fork")
    with ctx.Pool(min(WORKERS, len(cases))) as pool:
        yield from pool.imap(_worker, cases, chunksize=1)


def write_replay(pid, case, fail):
    d = os.path.join(VERIF, "replays", pid)
    os.makedirs(d, exist_ok=True)
    rec = {
        "property": pid,
        "key": fail["key"],
        "what": fail["what"],
        "detail": fail.get("detail"),
        "case": fail.get("replay_case", case),
        "replay": f"cd {VERIF} && ./check {pid} --replay <this file>",
    }
    path = os.path.join(d, jhash([fail["key"], fail.get("replay_case", case)]) + ".json")
    with open(path, "w") as f:
        json.dump(rec, f, indent=1, default=str)
    return path


def run_check(mod, tier, seed, only_case=None):
    t0 = time.time()
    pid = mod.ID
    if hasattr(mod, "selftest"):
        mod.selftest()
    cases = [only_case] if only_case is not None else list(mod.cases(tier, seed))
    agg = {
        "cases": len(cases),
        "evaluations": 0,
        "sigs": set(),
        "outcomes": {},
        "counters": {},
        "samples": [],
        "fails": [],
        "slowest": 0.0,
        "distinct_extra": 0,
    }
    all_results = []
    ncases = len(cases)
    sample_at = {0, ncases // 3, (2 * ncases) // 3, max(ncases - 1, 0)}  # samples spread over the enumeration, not only its head
    for ci, (case, r) in enumerate(zip(cases, pmap(mod, cases))):
        if hasattr(mod, "cross_check"):
            all_results.append(r)
        agg["evaluations"] += int(r.get("n", 1))
        agg["slowest"] = max(agg["slowest"], r["wall"])
        if r.get("nontrivial", True):
            sigs = r.get("sigs")
            if sigs is None:
                sigs = [r.get("sig") or jhash(case)]
            agg["sigs"].update(sigs)
        agg["distinct_extra"] += int(r.get("distinct_count", 0))
        for o in r.get("outcomes", []):
            agg["outcomes"][o] = agg["outcomes"].get(o, 0) + 1
        for k, v in r.get("counters", {}).items():
            agg["counters"][k] = agg["counters"].get(k, 0) + v
        if r.get("sample") is not None and (ci in sample_at or (len(agg["samples"]) < 2 and ci > max(sample_at))):
            agg["samples"].append(r["sample"])
        for f in r["fails"]:
            agg["fails"].append((case, f))
    if hasattr(mod, "cross_check") and only_case is None:
        for case, f in mod.cross_check(cases, all_results):
            agg["fails"].append((case, f))
    return finish(mod, tier, seed, agg, t0, replaying=only_case is not None)


def finish(mod, tier, seed, agg, t0, replaying=False):
    pid = mod.ID
    findings = [f for f in load_findings() if f["property"] == pid]
    known = {f["key"]: f for f in findings if f["status"] == "known"}
    new, seen_known, seen_keys = [], {}, set()
    for case, f in agg["fails"]:
        if f["key"] in known:
            seen_known.setdefault(f["key"], (case, f))
            continue
        if f["key"] in seen_keys:
            continue
        seen_keys.add(f["key"])
        new.append((case, f))

    rc = 0
    lines = []
    for key, (case, f) in seen_known.items():
        lines.append(f"KNOWN-FINDING: property={pid} {key} :: {known[key]['what']}")
    replay_paths = []
    for case, f in new[:10]:
        path = write_replay(pid, case, f)
        replay_paths.append(path)
        lines.append(f"VIOLATION property={pid} replay={path}")
        lines.append(f"  key={f['key']}  {f['what'][:400]}")
        rc = 1

    # reproduce the first violation from its replay file in a fresh process before trusting it
    if new and not replaying and os.environ.get("VERIF_NO_REPRO") != "1":
        p = subprocess.run(
            [os.path.join(VERIF, "check"), pid, "--replay", replay_paths[0]],
            capture_output=True,
            text=True,
            env={**os.environ, "VERIF_NO_REPRO": "1"},
        )
        if p.returncode != 1 and "replay_case" in new[0][1]:
            # the minimal replay (the failing history alone) is quiet: the violation may depend on the calls that preceded it on the
            # same objects within the case (state leaking between calls is itself the defect) - replay the WHOLE case instead
            case0, f0 = new[0]
            full = write_replay(pid, case0, {k: v for k, v in f0.items() if k != "replay_case"})
            p2 = subprocess.run([os.path.join(VERIF, "check"), pid, "--replay", full], capture_output=True, text=True,
                                env={**os.environ, "VERIF_NO_REPRO": "1"})
            if p2.returncode == 1:
                lines[lines.index(f"VIOLATION property={pid} replay={replay_paths[0]}")] = f"VIOLATION property={pid} replay={full}"
                lines.append(f"NOTE property={pid}: the failing history alone ({replay_paths[0]}) does not reproduce the violation; "
                             f"the whole case does ({full}) - the result depends on earlier calls on the same objects")
                replay_paths[0] = full
                p = p2
        if p.returncode != 1:
            lines.append(
                f"HARNESS-ERROR property={pid}: first violation did not reproduce from its replay file "
                f"(rc={p.returncode}); see {replay_paths[0]}"
            )
            lines.append(p.stdout[-2000:] + p.stderr[-2000:])
            rc = 2

    # vacuity guards
    missing = [o for o in getattr(mod, "REQUIRED_OUTCOMES", []) if o not in agg["outcomes"]]
    if missing and not replaying and rc == 0:
        lines.append(f"HARNESS-ERROR property={pid}: vacuous exploration, outcomes never observed: {missing}")
        rc = 2

    distinct = len(agg["sigs"]) + agg["distinct_extra"]
    cov = {
        "evaluations": agg["evaluations"],
        "distinct_nontrivial": distinct,
        "rule": mod.RULE,
        "samples": agg["samples"] or ["<no sample recorded>"],
        "cases": agg["cases"],
        "outcomes_observed": agg["outcomes"],
        "counters": agg["counters"],
        "exhaustive": True,
        "slowest_case_s": round(agg["slowest"], 2),
    }
    if hasattr(mod, "finalize"):
        cov.update(mod.finalize(agg, tier) or {})
    ev = {
        "property_id": pid,
        "tier": tier,
        "seed": seed,
        "level": mod.LEVEL,
        "coverage": cov,
        "assumptions": list(getattr(mod, "ASSUMPTIONS", [])),
        "wall_s": round(time.time() - t0, 2),
        "violations": len(new),
        "known_findings_seen": sorted(seen_known),
        "technique": getattr(mod, "TECHNIQUE", ""),
        "repo": REPO,
    }
    if not replaying:
        evdir = os.environ.get("VERIF_EVIDENCE_DIR") or os.path.join(VERIF, "evidence")
        os.makedirs(evdir, exist_ok=True)
        with open(os.path.join(evdir, f"{pid}.json"), "w") as f:
            json.dump(ev, f, indent=1, default=str)
    for l in lines:
        print(l)
    summ = {k: cov[k] for k in ("cases", "evaluations", "distinct_nontrivial")}
    for k in ("states", "transitions", "traces_validated_against_impl"):
        if k in cov:
            summ[k] = cov[k]
    print(
        f"[{pid}] tier={tier} seed={seed} {summ} outcomes={agg['outcomes'] if len(agg['outcomes']) <= 8 else str(len(agg['outcomes'])) + ' kinds'} "
        f"violations={len(new)} known={len(seen_known)} wall={ev['wall_s']}s rc={rc}"
    )
    return rc
