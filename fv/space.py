"""E1: program space. Definition records (JSON-serialisable), finite families, dyadic input grids."""
from __future__ import annotations

import itertools

# ----------------------------------------------------------------------------- AST constructors


def S(n):
    return ["sym", n]


DT = ["dt"]


def C(p, q=1):
    return ["const", int(p), int(q)]


def add(a, b):
    return ["add", a, b]


def sub(a, b):
    return ["sub", a, b]


def mul(a, b):
    return ["mul", a, b]


def div(a, b):
    return ["div", a, b]


def pw(a, n):
    return ["pow", a, int(n)]


def fn(f, a):
    return ["fn", f, a]


def sum_(terms):
    it = iter(terms)
    acc = next(it)
    for t in it:
        acc = add(acc, t)
    return acc


def show(ast):
    t = ast[0]
    if t == "sym":
        return ast[1]
    if t == "dt":
        return "dt"
    if t == "const":
        return f"{ast[1]}/{ast[2]}" if ast[2] != 1 else str(ast[1])
    if t == "fn":
        return f"{ast[1]}({show(ast[2])})"
    if t == "pow":
        return f"({show(ast[1])})**{ast[2]}"
    if t == "atan2":
        return f"atan2({show(ast[1])}, {show(ast[2])})"
    if t == "clip":
        return f"clip({show(ast[1])}, {show(ast[2])}, {show(ast[3])})"
    op = {"add": "+", "sub": "-", "mul": "*", "div": "/"}[t]
    return f"({show(ast[1])} {op} {show(ast[2])})"


# ----------------------------------------------------------------------------- definition records


def mkdef(
    name,
    state,
    control,
    calibration,
    model,
    calmap=None,
    pnoise=None,
    sensors=None,
    snoise=None,
    container="set",
    as_strings=False,
):
    return {
        "name": name,
        "state": list(state),
        "control": list(control),
        "calibration": list(calibration),
        "container": container,
        "model": [[k, v] for k, v in model],
        "calmap": [[k, v] for k, v in (calmap or [])],
        "pnoise": [[k, v] for k, v in (pnoise or [])],
        "sensors": [[k, [[r, a] for r, a in rs]] for k, rs in (sensors or [])],
        "snoise": [[k, [[r, v] for r, v in rs]] for k, rs in (snoise or [])],
        "as_strings": as_strings,
    }


# values: small dyadics, all distinct, so a swap of two slots is never masked
CAL_VALUES = [0.625, -1.5, 2.25, 0.875]
PNOISE_VALUES = [0.25, 0.75, 1.5, 0.125]
SNOISE_VALUES = [0.5, 2.0, 0.25, 1.25, 0.75, 4.0, 1.5, 0.375, 3.0]

GRID_TABLES = [
    [0.75, -1.25, 2.5, 0.5, -0.375, 1.75, -2.25, 1.125, 0.25, -0.625, 1.5, -1.75, 2.75, -0.875, 0.375, 3.25],
    [1.25, -0.75, 0.625, 2.25, -1.5, 0.375, 1.875, -2.5, 0.5, -0.25, 2.75, -1.125, 0.875, 3.5, -0.125, 1.625],
    [-0.5, 1.75, 0.875, -2.25, 1.375, 2.5, -0.625, 0.25, 3.25, -1.875, 0.75, 1.125, -1.25, 2.125, 0.375, -3.5],
    [2.5, 0.375, -1.75, 1.25, 0.625, -0.875, 3.0, -2.125, 1.5, 0.125, -0.25, 2.25, -1.375, 0.75, 1.875, -2.75],
]
DT_VALUES = [0.125, -0.25, 0.0625]


def is_polynomial(ast):
    t = ast[0]
    if t in ("sym", "dt", "const"):
        return True
    if t in ("fn", "div", "atan2", "clip"):
        return False
    if t == "pow":
        return int(ast[2]) > 0 and is_polynomial(ast[1])
    return is_polynomial(ast[1]) and is_polynomial(ast[2])


def special_values(asts):
    """boundary values suggested by the program itself: its constants, their squares and negatives (a rewrite that is valid
    'almost everywhere' fails where a symbol meets one of the program's own constants)"""
    from .refmodel import ast_consts
    vals = []
    for a in asts:
        for p_, q_ in sorted(ast_consts(a)):
            c = p_ / q_
            for v in (c, c * c, -c):
                if v not in vals and abs(v) <= 64 and v != 0.0:
                    vals.append(v)
    return vals[:8]


def grid_points(symbols, per_symbol, seed=0, dts=(0.125, -0.25), specials=(), large=False):
    """Full Cartesian product: `per_symbol` distinct dyadic values for every symbol slot (slot i draws from a
    rotated table so no two slots share a value at the same grid index), times the dt values.
    Yields env dicts {name: float, 'dt': float}."""
    table = GRID_TABLES[seed % len(GRID_TABLES)]
    n = len(table)
    axes = []
    for i, s in enumerate(symbols):
        # beyond the 6th symbol slot a single value is used (wide models: 2^6 or 3^6 points are plenty to expose a slot swap,
        # all slots still carry distinct values)
        axes.append([table[(i * 3 + j * 5 + seed // 4) % n] for j in range(per_symbol if i < 6 else 1)])
    first = None
    for dt in dts:
        for combo in itertools.product(*axes):
            env = dict(zip(symbols, combo))
            env["dt"] = dt
            if first is None:
                first = dict(env)
            yield env
    # boundary values AFTER the generic points (so that anything kept between calls has been filled with non-zero values):
    # the all-zero input, a zero time step, each symbol zero on its own, and finally the very first point once more
    if first is not None:
        yield dict({s: 0.0 for s in symbols}, dt=dts[0])
        yield dict(first, dt=0.0)
        yield dict(first, dt=2.0 ** -34)   # shorter than any "time resolution" a shortcut might use (1e-9 s), still a step
        yield dict(first, dt=-(2.0 ** -34))
        for s in symbols[:4]:
            yield dict(first, **{s: 0.0})
        for s in symbols[:3]:
            for v in specials:
                yield dict(first, **{s: v})
        if large:
            # large, nearly equal operands (exactly representable): differences are exact, but a rewrite that expands a
            # product of differences cancels catastrophically
            big = 2.0 ** 26
            yield dict({s: big + (i + 1) * 0.75 for i, s in enumerate(symbols)}, dt=dts[0])
            yield dict({s: -big - (i + 1) * 1.25 for i, s in enumerate(symbols)}, dt=dts[0])
        yield dict(first)


def some_points(symbols, count, seed=0, dts=(0.125,)):
    """`count` deterministic points with all-distinct coordinates (a diagonal walk through the table)"""
    table = GRID_TABLES[seed % len(GRID_TABLES)]
    n = len(table)
    for p in range(count):
        env = {s: table[(i * 3 + p * 7 + seed // 4) % n] for i, s in enumerate(symbols)}
        env["dt"] = dts[p % len(dts)]
        yield env


# ----------------------------------------------------------------------------- families


def fingerprint(i, symbols, quad=True):
    """sum_j w_ij * sym_j + sum_a v_ia * sym_a * sym_{a+1}: every output depends on every symbol with distinct
    dyadic weights, so any slot mis-binding changes the value at every grid point."""
    terms = []
    for j, s in enumerate(symbols):
        w = 1 + ((i * 7 + j * 3) % 11)
        terms.append(mul(C(w, 8), s))
    if quad and len(symbols) >= 2:
        for a in range(len(symbols)):
            b = (a + 1) % len(symbols)
            if a == b or (len(symbols) == 2 and a == 1):
                continue
            v = 1 + ((i * 5 + a * 2) % 7)
            terms.append(mul(C(v, 16), mul(symbols[a], symbols[b])))
    return sum_(terms)


STATE_NAMES = ["y", "x", "z", "x10", "x2", "w_s"]  # declaration order deliberately not the sorted order; x10 < x2 < z
CONTROL_NAMES = ["w", "u", "u10", "u2"]
CAL_NAMES = ["k", "c", "c_1", "K"]


def bind_def(n, k, c, order=0, container="set", as_strings=False, sensors_shape=(), tag=""):
    st_all = STATE_NAMES[:n]
    ct_all = CONTROL_NAMES[:k]
    ca_all = CAL_NAMES[:c]
    if n <= 3:
        perms_s = list(itertools.permutations(st_all))
    else:  # wide models: a few rotations/reversals instead of all n! orders
        perms_s = [tuple(st_all[r:] + st_all[:r]) for r in range(n)] + [tuple(reversed(st_all))]
    st = list(perms_s[order % len(perms_s)])
    ct = list(reversed(ct_all)) if (order // len(perms_s)) % 2 else list(ct_all)
    ca = list(reversed(ca_all)) if (order // (2 * len(perms_s))) % 2 else list(ca_all)
    syms = [DT] + [S(s) for s in sorted(st_all)] + [S(s) for s in sorted(ca_all)] + [S(s) for s in sorted(ct_all)]
    # output index is tied to the NAME (not to the declaration position) so all orders define the same model
    model = [[s, fingerprint(sorted(st_all).index(s), syms)] for s in st]
    calmap = [[s, CAL_VALUES[sorted(ca_all).index(s)]] for s in reversed(sorted(ca))]
    pnoise = [[s, PNOISE_VALUES[sorted(ct_all).index(s)]] for s in reversed(sorted(ct))]
    sensors, snoise = [], []
    if sensors_shape:
        sensors, snoise = rect_sensors(sorted(st_all), sorted(ca_all), sensors_shape)
    name = f"bind-n{n}k{k}c{c}-o{order}-{container}{'-str' if as_strings else ''}{tag}"
    return mkdef(name, st, ct, ca, model, calmap, pnoise, sensors, snoise, container, as_strings)


SENSOR_KEYS = ["gps", "alt", "imu"]  # declared out of sorted order
READING_NAMES = ["r2", "r1", "r3"]


def rect_sensors(states, cals, shape):
    """shape: tuple of readings-per-sensor. Readings are fingerprints over state U calibration."""
    syms = [S(s) for s in states] + [S(s) for s in cals]
    sensors, snoise = [], []
    q = 0
    for si, m in enumerate(shape):
        key = SENSOR_KEYS[si]
        rs, ns = [], []
        for ri in range(m):
            rname = READING_NAMES[ri]
            rs.append([rname, fingerprint(3 + si * 3 + sorted(READING_NAMES[:m]).index(rname), syms)])
        for rname, _ in reversed(rs):
            ns.append([rname, SNOISE_VALUES[(si * 3 + sorted(READING_NAMES[:m]).index(rname)) % len(SNOISE_VALUES)]])
        sensors.append([key, rs])
        snoise.append([key, ns])
    snoise.reverse()
    return sensors, snoise


def family_bind(tier, with_sensors=False):
    shapes = [(n, k, c) for n in (1, 2, 3) for k in (0, 1, 2) for c in (0, 1, 2)]
    out = []
    for i, (n, k, c) in enumerate(shapes):
        sens = ()
        if with_sensors:
            sens = [(1,), (2,), (3,), (1, 2), (2, 1, 3), (3, 1)][i % 6]
        out.append(bind_def(n, k, c, order=i, container="list" if i % 2 else "set", sensors_shape=sens))
    # "any number of symbols": wide models (names include x10 < x2, u10 < u2, upper-case K < c)
    wide = [(5, 3, 3), (4, 3, 0), (6, 0, 4)] if tier == "thorough" else [(5, 3, 3)]
    for i, (n, k, c) in enumerate(wide):
        out.append(bind_def(n, k, c, order=i + 1, container="list" if i % 2 else "set",
                            sensors_shape=((3, 1) if with_sensors else ()), tag="-wide"))
    if tier == "thorough":
        for n, k, c in [(3, 2, 2), (2, 2, 1), (3, 1, 0), (2, 0, 2)]:
            for order in range(24):
                out.append(bind_def(n, k, c, order=order, container="list" if order % 2 else "set",
                                    sensors_shape=((2, 1) if with_sensors else ()), tag="-perm"))
    return out


def _one_op_defs():
    """OPS: one construct per program over each operand kind"""
    operands = {"state": S("x"), "control": S("u"), "cal": S("c"), "dt": DT, "const": C(3, 4)}
    out = []

    def mk(name, expr):
        # a second state keeps the layout non-trivial; y' adds a coupling so the Jacobian is dense
        model = [["y", add(mul(S("y"), C(1, 2)), S("x"))], ["x", expr]]
        return mkdef(f"ops-{name}", ["y", "x"], ["u"], ["c"], model, [["c", 0.625]], [["u", 0.25]])

    for op in ("add", "sub", "mul", "div"):
        for an, a in operands.items():
            for bn, b in operands.items():
                if an == "const" and bn == "const":
                    continue
                if op == "div":
                    b = add(pw(b, 2), C(1)) if bn != "const" else b  # keep the denominator away from 0
                out.append(mk(f"{op}-{an}-{bn}", [op, a, b]))
    for f in ("sin", "cos", "tan", "atan", "tanh", "exp"):
        for an, a in operands.items():
            if an == "const":
                continue
            arg = mul(C(1, 4), a) if f in ("tan", "exp") else a
            out.append(mk(f"{f}-{an}", add(fn(f, arg), S("x"))))
    for f in ("log", "sqrt"):
        for an, a in operands.items():
            if an == "const":
                continue
            out.append(mk(f"{f}-{an}", add(fn(f, add(pw(a, 2), C(1, 2))), S("x"))))
    for n in (2, 3, -1, -2):
        for an, a in operands.items():
            if an == "const":
                continue
            base = add(pw(a, 2), C(1)) if n < 0 else a
            out.append(mk(f"pow{n}-{an}", add(pw(base, n), S("x"))))
    # the other elementary functions both back-ends print (bounded-domain ones get a quarter of the operand: |operand|/4 < 1 on the grid)
    for f in ("asin", "acos", "atanh", "sinh", "cosh", "asinh", "acot", "sec", "csc", "cot"):
        for an, a in operands.items():
            if an == "const":
                continue
            arg = mul(C(1, 4), a) if f in ("asin", "acos", "atanh", "sinh", "cosh") else a
            out.append(mk(f"{f}-{an}", add(fn(f, arg), S("x"))))
    out.append(mk("atan2-state-control", add(["atan2", S("y"), S("u")], S("x"))))
    out.append(mk("atan2-sum-cal", add(["atan2", add(S("x"), mul(DT, S("u"))), mul(S("c"), S("y"))], S("x"))))
    # linear updates with non-dyadic rational coefficients: whole Jacobian entries are the exact rationals 1/3, 2/7, 5/3
    out.append(mk("rational-linear", add(add(mul(C(1, 3), S("x")), mul(C(2, 7), S("y"))), mul(C(5, 3), S("u")))))
    out.append(mk("rational-linear-cal", add(div(S("x"), C(3)), sub(mul(C(7, 9), S("c")), div(S("u"), C(6))))))
    # constants and integer results: lambdify returns Python ints here
    out.append(mk("const-int", C(2)))
    out.append(mk("const-zero", C(0)))
    out.append(mk("const-frac", C(-5, 8)))
    out.append(mk("identity", S("x")))
    out.append(mk("other-state", S("y")))
    out.append(mk("only-control", S("u")))
    out.append(mk("only-cal", S("c")))
    out.append(mk("only-dt", DT))
    # a single denominator factor that is a square / cube (printers that expand small powers must keep the parentheses)
    out.append(mk("div-by-square", div(S("u"), pw(S("x"), 2))))
    out.append(mk("div-by-cube", div(S("c"), pw(add(S("x"), S("y")), 3))))
    out.append(mk("inv-square", add(pw(S("y"), -2), S("x"))))
    out.append(mk("reciprocal", add(div(C(1), S("y")), S("x"))))
    out.append(mk("neg-one-coeff", sub(S("x"), mul(DT, S("y")))))
    out.append(mk("neg-two-coeff", sub(S("x"), mul(C(2), mul(DT, S("y"))))))
    # a function applied to its own inverse partner outside the principal range (grid values reach +-3.5): atan(tan(u)) != u
    out.append(mk("atan-tan-state", fn("atan", fn("tan", S("x")))))
    out.append(mk("atan-tan-sum", add(fn("atan", fn("tan", add(S("x"), mul(DT, S("u"))))), S("y"))))
    out.append(mk("tan-atan-cal", fn("tan", fn("atan", mul(S("c"), S("x"))))))
    out.append(mk("log-exp-state", add(fn("log", fn("exp", mul(C(1, 4), S("x")))), S("u"))))
    out.append(mk("sqrt-square-control", add(fn("sqrt", pw(S("u"), 2)), S("x"))))
    # a denominator that is a sum containing a root (rationalising it introduces a singularity where sqrt(.) meets the constant),
    # and products of differences (expanding them cancels for large, nearly equal operands)
    out.append(mk("div-by-sum-with-sqrt", div(S("u"), add(C(1, 2), fn("sqrt", S("y"))))))
    out.append(mk("div-by-sqrt-sum", div(C(1), add(fn("sqrt", add(pw(S("x"), 2), C(1, 4))), fn("sqrt", add(pw(S("y"), 2), C(1, 4)))))))
    out.append(mk("square-of-difference", add(pw(sub(S("x"), S("y")), 2), pw(sub(S("u"), S("x")), 2))))
    out.append(mk("product-of-differences", mul(sub(S("x"), S("y")), sub(S("x"), S("u")))))
    # rewrites that are only valid for positive arguments (log(u^2) -> 2 log(u), log(a) + log(b) -> log(a b) is safe but the
    # reverse split of log(a b) is not when both are negative)
    out.append(mk("log-square", add(fn("log", pw(S("x"), 2)), S("u"))))
    out.append(mk("log-prod-squares", fn("log", add(mul(pw(S("x"), 2), pw(S("u"), 2)), C(1, 16)))))
    out.append(mk("log-neg-prod", add(fn("log", add(mul(S("x"), S("u")), C(20))), S("y"))))
    # depth-3 mixes
    out.append(mk("mix1", div(mul(fn("sin", add(S("x"), S("u"))), fn("exp", mul(C(1, 4), S("c")))), add(pw(S("y"), 2), C(1)))))
    out.append(mk("mix2", sub(pw(add(S("x"), mul(DT, S("u"))), 3), fn("atan", mul(S("c"), S("y"))))))
    out.append(mk("mix3", add(fn("cos", mul(S("x"), S("y"))), mul(DT, fn("tanh", sub(S("u"), S("c")))))))
    return out


def family_extreme():
    """model-VALUE-only programs whose intermediates overflow in IEEE arithmetic while the value is defined and representable
    (exp(896) = inf, 1/(1 + inf) = 0). Their symbolic derivatives evaluate to inf/inf, so they are used only where values of the
    model itself are compared, never in filter checks."""
    def mk(name, expr):
        model = [["y", add(mul(S("y"), C(1, 2)), S("x"))], ["x", expr]]
        return mkdef(f"extreme-{name}", ["y", "x"], ["u"], ["c"], model, [["c", 0.625]], [["u", 0.25]])
    steep = mul(C(256), sub(S("x"), S("y")))
    return [mk("steep-logistic", add(div(C(1), add(C(1), fn("exp", steep))), mul(C(1, 2), S("u")))),
            mk("steep-logistic-shared", add(div(S("c"), add(C(1), fn("exp", steep))), div(S("u"), add(C(2), fn("exp", steep))))),
            mk("steep-tanh-exp", add(fn("tanh", fn("exp", steep)), mul(fn("tanh", fn("exp", steep)), S("u"))))]


def family_piecewise():
    """saturation / dead-band constructs (sympy Piecewise with comparisons), alone and SHARED by several outputs so that CSE
    hoists them into a temporary; evaluation points fall on both sides of the bounds"""
    x, y, u, c = S("x"), S("y"), S("u"), S("c")
    sat = ["clip", u, C(-1), C(1)]
    sat2 = ["clip", add(x, mul(C(1, 2), y)), C(-3, 4), C(5, 4)]

    def mk(name, exprs):
        st = ["y", "x"] if len(exprs) == 2 else ["z", "y", "x"]
        return mkdef(f"pw-{name}", st, ["u"], ["c"], [[n, e] for n, e in zip(st, exprs)], [["c", 0.625]], [["u", 0.25]])
    return [mk("sat-single", [add(y, mul(DT, sat)), x]),
            mk("sat-shared", [add(y, mul(DT, sat)), add(x, mul(mul(C(1, 2), DT), mul(sat, c))), mul(sat, sat)]),
            mk("sat-state-shared", [add(y, mul(DT, sat2)), mul(sat2, add(u, c))]),
            mk("sat-nested", [add(fn("sin", sat2), mul(sat2, sat)), add(x, mul(sat, sat2)), add(sat, sat2)])]


def family_ops(tier):
    d = _one_op_defs()
    if tier == "quick":
        keep = [x for x in d if any(t in x["name"] for t in ("div-by-", "inv-square", "reciprocal", "neg-one", "neg-two", "atan-tan", "tan-atan",
                                                              "log-exp", "sqrt-square", "log-square", "log-prod", "log-neg", "with-sqrt", "sqrt-sum", "of-difference", "only-", "other-state", "const-", "identity",
                                                              "atan2-", "rational-", "acot-state", "sec-control", "asin-cal", "cosh-sum", "csc-state", "cot-cal", "atanh-control", "asinh-sum", "acos-state", "sinh-cal"))]
        return d[::3] + [x for x in keep if x not in d[::3]]
    return d


def family_cse(tier):
    x, y, u, c = S("x"), S("y"), S("u"), S("c")
    cores = {
        "sum": add(x, y),
        "sinsum": fn("sin", add(x, y)),
        "sumu": mul(add(x, y), u),
        "expc": mul(fn("exp", mul(C(1, 4), x)), c),
    }
    wrappers = {
        "id": lambda s: s,
        "sq": lambda s: pw(s, 2),
        "sx": lambda s: mul(s, x),
        "ssin": lambda s: add(s, fn("sin", s)),
        "rat": lambda s: div(s, add(C(1), pw(s, 2))),
    }
    out = []

    def mk(name, exprs):
        # the expressions read x and y; 2 outputs -> states (y, x), 3 outputs -> states (z, y, x)
        st = ["y", "x"] if len(exprs) == 2 else ["z", "y", "x"]
        model = [[n, e] for n, e in zip(st, exprs)]
        return mkdef(f"cse-{name}", st, ["u"], ["c"], model, [["c", 0.625]], [["u", 0.25]])

    wl = list(wrappers.items())
    for cn, core in cores.items():
        for (w1n, w1), (w2n, w2) in itertools.combinations(wl, 2):
            out.append(mk(f"{cn}-{w1n}-{w2n}", [w1(core), w2(core)]))
        for (w1n, w1), (w2n, w2), (w3n, w3) in itertools.combinations(wl, 3):
            out.append(mk(f"{cn}-{w1n}-{w2n}-{w3n}", [w1(core), w2(core), w3(core)]))
    s0 = add(x, y)
    s1 = fn("sin", s0)
    s2 = mul(s1, add(s0, u))
    s3 = fn("exp", mul(C(1, 8), s2))
    out.append(mk("nest3", [add(s3, s2), mul(s3, s1), add(s2, mul(s0, s3))]))
    out.append(mk("nest3b", [div(s3, add(C(1), pw(s2, 2))), add(s3, pw(s1, 2))]))
    out.append(mk("identical", [s2, s2, s2]))
    out.append(mk("temp-is-output", [s1, mul(s1, u), add(s1, c)]))
    out.append(mk("const-outs", [C(3, 2), s1, add(s1, C(1))]))
    out.append(mk("identity-outs", [y, x]))
    out.append(mk("swap", [y, x, mul(x, y)]))
    out.append(mk("dtshare", [add(x, mul(DT, s1)), add(y, mul(DT, s1)), mul(DT, mul(DT, s1))]))
    # sign-sensitive constructs around a shared sub-expression that takes both signs on the grid: a simplification that
    # assumes temporaries are positive (sqrt(t**2) -> t, sqrt(a*b) -> sqrt(a)*sqrt(b)) changes these
    dxy = sub(x, y)
    duv = sub(u, mul(C(2), x))
    ab = lambda e: fn("sqrt", pw(e, 2))
    out.append(mk("sign-abs1", [mul(ab(dxy), dxy), add(ab(dxy), u)]))
    out.append(mk("sign-abs2", [mul(ab(duv), duv), add(dxy, ab(duv)), mul(dxy, duv)]))
    out.append(mk("sign-sqrtprod", [fn("sqrt", add(mul(pw(dxy, 2), pw(duv, 2)), C(1, 2))), mul(dxy, duv)]))
    out.append(mk("sign-atan", [fn("atan", div(dxy, add(pw(duv, 2), C(1)))), mul(fn("atan", div(dxy, add(pw(duv, 2), C(1)))), dxy)]))
    # polynomial programs sharing products of differences (evaluated also at large, nearly equal operands)
    d1, d2 = sub(x, y), sub(x, u)
    out.append(mk("poly-diff-squares", [mul(pw(d1, 2), c), add(pw(d1, 2), pw(d2, 2)), mul(d1, d2)]))
    out.append(mk("poly-diff-cubes", [add(pw(d1, 3), pw(d2, 2)), mul(pw(d1, 2), d2)]))
    # chains of temporaries that are read ONLY by other temporaries (never directly by an output): t0 = x*y is read by
    # sin/cos only, those by exp/tanh only, ... - liveness / ordering mistakes among the temporaries themselves
    t0 = mul(x, y)
    a1, a2 = fn("sin", t0), fn("cos", t0)
    b1, b2 = fn("exp", mul(C(1, 2), a1)), fn("tanh", add(a1, a2))
    b3 = fn("exp", mul(C(1, 4), a2))
    out.append(mk("chain3", [add(b1, b2), mul(b1, b3), sub(b2, mul(u, b3))]))
    d1_, d2_ = fn("atan", add(b1, b2)), fn("sin", mul(b1, b2))
    out.append(mk("chain4", [add(d1_, d2_), mul(d1_, d2_), sub(d1_, mul(u, d2_))]))
    e1_, e2_ = fn("tanh", add(d1_, mul(c, d2_))), fn("cos", sub(d1_, d2_))
    out.append(mk("chain5", [add(e1_, e2_), mul(e1_, e2_)]))
    # shared sub-expressions that depend ONLY on the control, only on the calibration, only on dt (candidates for being
    # "constant" between calls - they are not: every call may bring another control / time step)
    tu, tc, td = fn("sin", add(u, C(1, 4))), fn("cos", mul(c, C(3, 2))), fn("exp", mul(DT, C(1, 2)))
    tuc = fn("tanh", mul(u, c))
    out.append(mk("ctl-only", [add(x, mul(tu, tuc)), mul(y, add(tu, tc)), add(mul(tc, tuc), mul(td, add(tu, x)))]))
    out.append(mk("dt-only", [add(x, td), mul(y, td), mul(td, tc)]))
    out.append(many_temporaries(13, "a"))
    out.append(many_temporaries(24, "b"))
    if tier == "quick":
        return out[::4] + out[-21:]
    return out


def family_sizes(tier):
    """block-size sweep: n states (1..8), k controls, one sensor with m readings, one with 1: the blocks of the generated
    code have n, n*n, n*k, m, m*n statements - the counts 1..64 that such shapes produce, so a mistake that depends on
    the NUMBER of statements in a block (batching, slicing, name order from the 10th/32nd statement on) is met. Rows are dense
    (every state depends on the shared sum of all states) and all coefficients differ, so shifted or repeated entries show."""
    shapes = [(1, 1, 2), (2, 3, 3), (3, 2, 1), (4, 1, 3), (5, 2, 2), (6, 3, 3), (7, 5, 3), (8, 2, 3), (7, 2, 1), (6, 1, 2)]
    if tier == "quick":
        shapes = [(4, 1, 3), (7, 5, 3), (6, 3, 3)]
    out = []
    for n, k, m in shapes:
        st = [f"q{i}" for i in range(1, n + 1)]
        ct = [f"v{i}" for i in range(1, k + 1)]
        tot = sum_([S(q) for q in st])
        sn, cs = fn("sin", mul(C(1, 4), tot)), fn("cos", mul(C(1, 8), tot))
        model = []
        for i, q in enumerate(st):
            nxt = S(st[(i + 1) % n])
            model.append([q, add(S(q), mul(DT, add(mul(C(i + 1, 8), sn), add(mul(mul(C(2 * i + 1, 16), nxt), S(ct[i % k])),
                                                                          mul(S("g"), mul(C(i + 3, 4), cs))))))])
        rs = [[f"r{j + 1}", add(mul(C(j + 1, 2), sn), mul(S(st[j % n]), add(S("g"), C(j + 1, 4))))] for j in range(m)]
        sensors = [["wide", rs], ["one", [["p", mul(cs, S(st[-1]))]]]]
        snoise = [["wide", [[f"r{j + 1}", SNOISE_VALUES[j]] for j in range(m)]], ["one", [["p", 0.5]]]]
        out.append(mkdef(f"size-n{n}k{k}m{m}", st, ct, ["g"], model, [["g", 0.625]], [[c_, PNOISE_VALUES[i % 4]] for i, c_ in enumerate(ct)],
                         sensors, snoise, container="list" if n % 2 else "set"))
    # "rich" rows: every row has half a dozen shared sub-expressions of its own (more temporaries than statements per block)
    for n in ((3, 4) if tier == "quick" else (2, 3, 4, 5)):
        st = [f"q{i}" for i in range(1, n + 1)]
        model = []
        for i, q in enumerate(st):
            a_ = add(mul(S(q), S(st[(i + 1) % n])), S("v1"))
            b_ = sub(S(q), mul(S(st[(i + 2) % n]), S("g")))
            row = add(mul(fn("sin", a_), fn("exp", mul(C(1, 4), b_))), mul(fn("cos", a_), fn("tanh", b_)))
            model.append([q, add(S(q), mul(DT, mul(C(i + 1, 4), row)))])
        rs = [["r1", mul(fn("sin", mul(S(st[0]), S(st[-1]))), add(S("g"), fn("cos", mul(S(st[0]), S(st[-1])))))], ["r2", S(st[0])]]
        out.append(mkdef(f"size-rich-n{n}", st, ["v1"], ["g"], model, [["g", 0.625]], [["v1", 0.25]],
                         [["wide", rs]], [["wide", [["r1", 0.5], ["r2", 2.0]]]], container="set" if n % 2 else "list"))
    return out


def with_unused(d):
    """the same definition with a control and a calibration value that are declared (and given noise / a value) but never used by
    any expression; their names sort BEFORE the used ones, so anything that skips unused symbols shifts the used ones"""
    d2 = dict(d, name=d["name"] + "-unused")
    d2["control"] = list(d["control"]) + ["a0"]
    d2["pnoise"] = [["a0", 2.0]] + [list(x_) for x_ in d["pnoise"]]
    d2["calibration"] = list(d["calibration"]) + ["A0"]
    d2["calmap"] = [list(x_) for x_ in d["calmap"]] + [["A0", 3.5]]
    return d2


def assumed(d, which="*", assumption="real"):
    """the same definition with its symbols declared with a sympy assumption (Symbol(name, real=True) is a different object from
    Symbol(name)); which: "*" for every symbol incl. dt, or a list of names"""
    a = {"*": {assumption: True}} if which == "*" else {n: {assumption: True} for n in which}
    return dict(d, assume=a, name=d["name"] + f"-{assumption}" + ("" if which == "*" else "_" + "".join(which)))


def many_temporaries(depth, tag):
    """a chain t_i = f_i(t_{i-1} + operand_i), every link shared by the next link and by two outputs: sympy.cse extracts
    >= depth temporaries in ONE block, so temporary names reach _t10, _t11, ... (name order != creation order)"""
    x, y, u, c = S("x"), S("y"), S("u"), S("c")
    fs = ["sin", "cos", "tanh", "atan"]
    ops = [x, y, u, c, DT]
    t = add(x, y)
    links = []
    for i in range(depth):
        t = fn(fs[i % 4], add(mul(C(1 + i % 3, 4), t), ops[i % 5]))
        links.append(t)
    outs = []
    for j in range(3):
        terms = [links[i] for i in range(depth) if i % 3 == j] + [mul(links[i], ops[(i + j) % 5]) for i in range(depth) if i % 3 == (j + 1) % 3]
        outs.append(sum_(terms))
    st = ["z", "y", "x"]
    return mkdef(f"cse-manytemps{depth}{tag}", st, ["u"], ["c"], [[n, e] for n, e in zip(st, outs)], [["c", 0.625]], [["u", 0.25]])


def family_sing():
    """models whose process Jacobian is singular"""
    m, z, v, a = S("m"), S("z"), S("v"), S("a")
    thrust = S("thrust")
    # the project's own mass/z/v/a rocket example (featuretests/rocket_model)
    rocket = mkdef(
        "sing-rocket",
        ["m", "z", "v", "a"],
        ["thrust"],
        [],
        [["m", m], ["z", add(z, mul(DT, v))], ["v", add(v, mul(DT, a))],
         ["a", sub(div(thrust, m), C(981, 100))]],
        [],
        [["thrust", 1.0]],
        [["simple", [["v", v]]]],
        [["simple", [["v", 1.0]]]],
    )
    x, y, u = S("x"), S("y"), S("u")
    dup = mkdef("sing-dup", ["x", "y"], ["u"], [], [["x", add(x, mul(DT, u))], ["y", add(x, mul(DT, u))]], [],
                [["u", 0.25]], [["s", [["r", y]]]], [["s", [["r", 0.5]]]])
    const = mkdef("sing-const", ["x", "y"], ["u"], [], [["x", C(1, 2)], ["y", add(y, mul(DT, mul(u, x)))]], [],
                  [["u", 0.25]], [["s", [["r", add(x, y)]]]], [["s", [["r", 0.5]]]])
    return [rocket, dup, const]


def rename_def(d, ren):
    """consistent renaming of symbols, sensor keys and reading names (ren: old -> new for any of them)"""
    from .refmodel import ast_rename

    r = lambda n: ren.get(n, n)
    return {
        "name": d["name"] + "-ren" + "".join(f"_{k}{v}" for k, v in sorted(ren.items())),
        "state": [r(s) for s in d["state"]],
        "control": [r(s) for s in d["control"]],
        "calibration": [r(s) for s in d["calibration"]],
        "container": d["container"],
        "model": [[r(k), ast_rename(a, ren)] for k, a in d["model"]],
        "calmap": [[r(k), v] for k, v in d["calmap"]],
        "pnoise": [[r(k), v] for k, v in d["pnoise"]],
        "sensors": [[r(k), [[r(rn), ast_rename(a, ren)] for rn, a in rs]] for k, rs in d["sensors"]],
        "snoise": [[r(k), [[r(rn), v] for rn, v in rs]] for k, rs in d["snoise"]],
        "as_strings": d.get("as_strings", False),
    }


def def_symbols(d):
    """input symbol names in the library's documented layout: sorted states, calibrations, controls"""
    return sorted(d["state"]), sorted(d["calibration"]), sorted(d["control"])
