"""Boring reference models, sharing nothing with formak's sympy -> cse -> simplify -> lambdify/ccode path.

* ref_eval / ref_jac: tree walk over OUR expression AST in 50-digit mpmath arithmetic (dyadic grid inputs
  are exact), forward-mode derivatives by (value, derivative) pairs.
* tiny dense matrix algebra over mpf (lists of lists) incl. Gauss-Jordan inverse.
* textbook EKF predict / update / NIS.

AST (JSON lists): ["sym", name] | ["dt"] | ["const", p, q] | ["add", a, b] | ["sub", a, b] | ["mul", a, b]
                  | ["div", a, b] | ["atan2", a, b] | ["pow", a, n] | ["fn", f, a] | ["clip", a, lo, hi]
"""
from __future__ import annotations

import mpmath as mp

mp.mp.dps = 50

SING = mp.mpf(2) ** -6
FUNCS = ("sin", "cos", "tan", "atan", "tanh", "exp", "log", "sqrt",
         "asin", "acos", "atanh", "sinh", "cosh", "asinh", "acot", "sec", "csc", "cot")


class Singular(Exception):
    """the reference meets a point where the symbolic expression is (nearly) undefined: point is skipped"""


def _fn(f, v, dv):
    if f == "sin":
        return mp.sin(v), mp.cos(v) * dv
    if f == "cos":
        return mp.cos(v), -mp.sin(v) * dv
    if f == "tan":
        c = mp.cos(v)
        if abs(c) < SING:
            raise Singular("tan pole")
        return mp.tan(v), dv / (c * c)
    if f == "atan":
        return mp.atan(v), dv / (1 + v * v)
    if f == "tanh":
        t = mp.tanh(v)
        return t, (1 - t * t) * dv
    if f == "exp":
        e = mp.exp(v)
        return e, e * dv
    if f == "log":
        if v < SING:
            raise Singular("log arg")
        return mp.log(v), dv / v
    if f == "sqrt":
        if v < SING:
            raise Singular("sqrt arg")
        s = mp.sqrt(v)
        return s, dv / (2 * s)
    if f in ("asin", "acos", "atanh"):
        if abs(v) > 1 - SING:
            raise Singular(f + " domain")
        if f == "atanh":
            return mp.atanh(v), dv / (1 - v * v)
        r = mp.sqrt(1 - v * v)
        return (mp.asin(v), dv / r) if f == "asin" else (mp.acos(v), -dv / r)
    if f == "sinh":
        return mp.sinh(v), mp.cosh(v) * dv
    if f == "cosh":
        return mp.cosh(v), mp.sinh(v) * dv
    if f == "asinh":
        return mp.asinh(v), dv / mp.sqrt(1 + v * v)
    if f == "acot":  # sympy's convention: acot(v) = atan(1/v), discontinuous at 0
        if abs(v) < SING:
            raise Singular("acot at 0")
        return mp.atan(1 / v), -dv / (1 + v * v)
    if f == "sec":
        c = mp.cos(v)
        if abs(c) < SING:
            raise Singular("sec pole")
        return 1 / c, mp.sin(v) / (c * c) * dv
    if f == "csc":
        s_ = mp.sin(v)
        if abs(s_) < SING:
            raise Singular("csc pole")
        return 1 / s_, -mp.cos(v) / (s_ * s_) * dv
    if f == "cot":
        s_ = mp.sin(v)
        if abs(s_) < SING:
            raise Singular("cot pole")
        return mp.cos(v) / s_, -dv / (s_ * s_)
    raise ValueError(f)


def _atan2(a, da, b, db):
    r2 = a * a + b * b
    if r2 < SING * SING:
        raise Singular("atan2 at the origin")
    if b < 0 and abs(a) < SING:
        raise Singular("atan2 on the branch cut")
    return mp.atan2(a, b), (b * da - a * db) / r2


def ref_eval_d(ast, env, wrt=None):
    """(value, d value / d wrt) at env: {name: number}; 'dt' is the name of the time step."""
    t = ast[0]
    if t == "sym":
        return mp.mpf(env[ast[1]]), mp.mpf(1 if ast[1] == wrt else 0)
    if t == "dt":
        return mp.mpf(env["dt"]), mp.mpf(1 if wrt == "dt" else 0)
    if t == "const":
        return mp.mpf(ast[1]) / mp.mpf(ast[2]), mp.mpf(0)
    if t == "fn":
        v, dv = ref_eval_d(ast[2], env, wrt)
        return _fn(ast[1], v, dv)
    if t == "pow":
        v, dv = ref_eval_d(ast[1], env, wrt)
        n = int(ast[2])
        if n < 0 and abs(v) < SING:
            raise Singular("pow base")
        return v**n, n * v ** (n - 1) * dv
    if t == "clip":  # saturation: Piecewise((lo, a < lo), (hi, a > hi), (a, True)) with constant bounds
        a, da = ref_eval_d(ast[1], env, wrt)
        lo, hi = ref_eval_d(ast[2], env, None)[0], ref_eval_d(ast[3], env, None)[0]
        if abs(a - lo) < SING or abs(a - hi) < SING:
            raise Singular("clip kink")
        if a < lo:
            return lo, mp.mpf(0)
        if a > hi:
            return hi, mp.mpf(0)
        return a, da
    a, da = ref_eval_d(ast[1], env, wrt)
    b, db = ref_eval_d(ast[2], env, wrt)
    if t == "add":
        return a + b, da + db
    if t == "sub":
        return a - b, da - db
    if t == "mul":
        return a * b, da * b + a * db
    if t == "div":
        if abs(b) < SING:
            raise Singular("denominator")
        return a / b, (da * b - a * db) / (b * b)
    if t == "atan2":
        return _atan2(a, da, b, db)
    raise ValueError(t)


def ref_eval(ast, env):
    return ref_eval_d(ast, env, None)[0]


def ref_eval_mag(ast, env):
    """(value, largest |intermediate| met while evaluating the expression AS WRITTEN): the rounding error of evaluating the
    user's own expression in doubles is relative to that magnitude, not to the (possibly cancelled) result"""
    t = ast[0]
    if t in ("sym", "dt", "const"):
        v = ref_eval(ast, env)
        return v, abs(v)
    if t == "fn":
        a, m = ref_eval_mag(ast[2], env)
        v = _fn(ast[1], a, mp.mpf(0))[0]
        return v, max(m, abs(v))
    if t == "clip":
        a, m = ref_eval_mag(ast[1], env)
        v = ref_eval(ast, env)
        return v, max(m, abs(v))
    if t == "pow":
        a, m = ref_eval_mag(ast[1], env)
        v = ref_eval(["pow", ["const", 0, 1], ast[2]], env) if False else None
        n = int(ast[2])
        if n < 0 and abs(a) < SING:
            raise Singular("pow base")
        v = a ** n
        return v, max(m, abs(v))
    a, ma = ref_eval_mag(ast[1], env)
    b, mb = ref_eval_mag(ast[2], env)
    v = ref_eval([t, ["const", 0, 1], ["const", 1, 1]], env) if False else None
    if t == "add":
        v = a + b
    elif t == "sub":
        v = a - b
    elif t == "mul":
        v = a * b
    elif t == "atan2":
        v = _atan2(a, mp.mpf(0), b, mp.mpf(0))[0]
    else:
        if abs(b) < SING:
            raise Singular("denominator")
        v = a / b
    return v, max(ma, mb, abs(v))


def ast_consts(ast, acc=None):
    acc = set() if acc is None else acc
    if ast[0] == "const":
        acc.add((ast[1], ast[2]))
    elif ast[0] in ("add", "sub", "mul", "div", "atan2"):
        ast_consts(ast[1], acc)
        ast_consts(ast[2], acc)
    elif ast[0] == "clip":
        for sub_ in ast[1:]:
            ast_consts(sub_, acc)
    elif ast[0] == "pow":
        ast_consts(ast[1], acc)
    elif ast[0] == "fn":
        ast_consts(ast[2], acc)
    return acc


def ref_jac(asts, env, wrt_names):
    """rows: outputs in the order given, cols: wrt_names in the order given"""
    return [[ref_eval_d(a, env, w)[1] for w in wrt_names] for a in asts]


def ast_symbols(ast, acc=None):
    acc = set() if acc is None else acc
    if ast[0] == "sym":
        acc.add(ast[1])
    elif ast[0] == "dt":
        acc.add("dt")
    elif ast[0] in ("add", "sub", "mul", "div", "atan2"):
        ast_symbols(ast[1], acc)
        ast_symbols(ast[2], acc)
    elif ast[0] == "clip":
        ast_symbols(ast[1], acc)
    elif ast[0] == "pow":
        ast_symbols(ast[1], acc)
    elif ast[0] == "fn":
        ast_symbols(ast[2], acc)
    return acc


def ast_rename(ast, ren):
    t = ast[0]
    if t == "sym":
        return ["sym", ren.get(ast[1], ast[1])]
    if t in ("dt", "const"):
        return list(ast)
    if t == "fn":
        return ["fn", ast[1], ast_rename(ast[2], ren)]
    if t == "pow":
        return ["pow", ast_rename(ast[1], ren), ast[2]]
    if t == "clip":
        return ["clip", ast_rename(ast[1], ren), list(ast[2]), list(ast[3])]
    return [t, ast_rename(ast[1], ren), ast_rename(ast[2], ren)]


# ----------------------------------------------------------------------------- matrices over mpf


def M(rows):
    return [[mp.mpf(v) for v in r] for r in rows]


def shape(A):
    return (len(A), len(A[0]) if A else 0)


def zeros(r, c):
    return [[mp.mpf(0)] * c for _ in range(r)]


def eye(n):
    return [[mp.mpf(1 if i == j else 0) for j in range(n)] for i in range(n)]


def T(A, cols=None):
    r = len(A)
    c = len(A[0]) if A else (cols or 0)
    return [[A[i][j] for i in range(r)] for j in range(c)]


def mul(A, B, inner=None):
    r = len(A)
    k = len(B)
    c = len(B[0]) if B else 0
    return [[mp.fsum(A[i][t] * B[t][j] for t in range(k)) for j in range(c)] for i in range(r)]


def add(A, B):
    return [[a + b for a, b in zip(ra, rb)] for ra, rb in zip(A, B)]


def sub(A, B):
    return [[a - b for a, b in zip(ra, rb)] for ra, rb in zip(A, B)]


def inv(A):
    n = len(A)
    W = [list(A[i]) + [mp.mpf(1 if i == j else 0) for j in range(n)] for i in range(n)]
    for c in range(n):
        p = max(range(c, n), key=lambda r: abs(W[r][c]))
        if abs(W[p][c]) < mp.mpf(10) ** -40:
            raise Singular("matrix inverse")
        W[c], W[p] = W[p], W[c]
        pv = W[c][c]
        W[c] = [v / pv for v in W[c]]
        for r in range(n):
            if r != c and W[r][c] != 0:
                f = W[r][c]
                W[r] = [a - f * b for a, b in zip(W[r], W[c])]
    return [row[n:] for row in W]


def diag(vals):
    n = len(vals)
    return [[mp.mpf(vals[i]) if i == j else mp.mpf(0) for j in range(n)] for i in range(n)]


def tofloat(A):
    return [[float(v) for v in r] for r in A]


def maxabs(A):
    return max([abs(v) for r in A for v in r] or [mp.mpf(0)])


# ----------------------------------------------------------------------------- reference EKF


def ekf_predict(G, P, V, Mn):
    """P' = G P G^T + V M V^T (V may have zero columns)"""
    n = len(P)
    GPGt = mul(mul(G, P), T(G))
    if V and V[0]:
        VMVt = mul(mul(V, Mn), T(V))
        return add(GPGt, VMVt)
    return GPGt if n else GPGt


def ekf_update(x, P, H, Q, z, hx):
    """returns (x+, P+, innovation, S, NIS); x, z, hx column vectors as lists"""
    Ht = T(H, cols=len(P))
    S = add(mul(mul(H, P), Ht), Q)
    Sinv = inv(S)
    K = mul(mul(P, Ht), Sinv)
    innov = [[a - b] for a, b in zip(z, hx)]
    xp = [xi + d[0] for xi, d in zip(x, mul(K, innov))]
    Pp = sub(P, mul(mul(K, H), P))
    nis = mul(mul(T(innov), Sinv), innov)[0][0]
    return xp, Pp, [d[0] for d in innov], S, nis
