#!/bin/bash
# Offline sanity + directories. Nothing is fetched; nothing outside /verif is written.
set -e
cd "$(dirname "$0")"
mkdir -p evidence replays
/venv/bin/python -c "import numpy, sympy, scipy, sklearn, mpmath, jinja2; print('python deps ok', numpy.__version__, sympy.__version__)"
g++ --version | head -1
./check selftest
