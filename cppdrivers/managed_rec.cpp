// Recording Impl types for the REAL formak/runtime/ManagedFilter.h (all four control x calibration Tag combinations,
// several max_dt_sec). Every process_model / sensor_model call is logged with the ids of its inputs, so the Python
// side can rebuild the exact composition of calls (C11) and the step lists (C10).
//
// stdin:  <combo 0..3> <hnum> <hden>
//         NEW <t0> <cal>
//         TICK <out> <ctl> <n> (<time> <key> <zid>)*n
// stdout: P <newid> <dt %.17g> <inid> <ctl> <cal>   |   S <newid> <key> <zid> <inid> <cal>   |   RET <id>   |   OK
#include <formak/runtime/ManagedFilter.h>

#include <cstdio>
#include <cstdlib>
#include <cstring>
#include <type_traits>
#include <vector>

#ifndef COMBOS
#define COMBOS 15  // bit c: instantiate combo c (0: control+calibration, 1: control only, 2: calibration only, 3: neither)
#endif

static int g_next = 1;
struct SV { int id = 0; };
struct Cal { int v = -1; };
struct Ctl { int v = -1; };

template <bool HasCtl, bool HasCal, int HN, int HD>
struct Impl;

template <bool HasCtl, bool HasCal, int HN, int HD>
struct RB {
  using ImplT = Impl<HasCtl, HasCal, HN, HD>;
  int key = 0, zid = 0;
  virtual ~RB() = default;
  // with calibration
  virtual SV sensor_model(const ImplT&, const SV& s, const Cal& c) const {
    if (key == 2) {  // a "rejected" reading: the filter returns its input unchanged
      std::printf("S %d %d %d %d %d\n", s.id, key, zid, s.id, c.v);
      return s;
    }
    SV o{g_next++};
    std::printf("S %d %d %d %d %d\n", o.id, key, zid, s.id, c.v);
    return o;
  }
  // without calibration
  virtual SV sensor_model(const ImplT&, const SV& s) const {
    if (key == 2) {
      std::printf("S %d %d %d %d %d\n", s.id, key, zid, s.id, -1);
      return s;
    }
    SV o{g_next++};
    std::printf("S %d %d %d %d %d\n", o.id, key, zid, s.id, -1);
    return o;
  }
};

template <bool HasCtl, bool HasCal, int HN, int HD>
struct Impl {
  struct Tag {
    using StateAndVarianceT = SV;
    using CalibrationT = std::conditional_t<HasCal, Cal, std::false_type>;
    using ControlT = std::conditional_t<HasCtl, Ctl, std::false_type>;
    using StampedReadingBaseT = RB<HasCtl, HasCal, HN, HD>;
    static constexpr double max_dt_sec = static_cast<double>(HN) / static_cast<double>(HD);
  };
  static SV rec(double dt, const SV& s, int ctl, int cal) {
    SV o{g_next++};
    std::printf("P %d %.17g %d %d %d\n", o.id, dt, s.id, ctl, cal);
    return o;
  }
  SV process_model(double dt, const SV& s, const Cal& c, const Ctl& u) const { return rec(dt, s, u.v, c.v); }
  SV process_model(double dt, const SV& s, const Ctl& u) const { return rec(dt, s, u.v, -1); }
  SV process_model(double dt, const SV& s, const Cal& c) const { return rec(dt, s, -1, c.v); }
  SV process_model(double dt, const SV& s) const { return rec(dt, s, -1, -1); }
};

static bool next_tok(char* buf) { return std::scanf("%63s", buf) == 1; }
static double rd() { double v; if (std::scanf("%lf", &v) != 1) std::exit(3); return v; }
static int rdi() { int v; if (std::scanf("%d", &v) != 1) std::exit(3); return v; }

template <bool HasCtl, bool HasCal, int HN, int HD>
int run() {
  using I = Impl<HasCtl, HasCal, HN, HD>;
  using MF = formak::runtime::ManagedFilter<I>;
  static_assert(MF::compatible);
  MF* mf = nullptr;
  char tok[64];
  while (next_tok(tok)) {
    if (!std::strcmp(tok, "NEW")) {
      double t0 = rd();
      int cal = rdi();
      delete mf;
      g_next = 1;
      if constexpr (HasCal) mf = new MF(t0, SV{0}, Cal{cal}); else mf = new MF(t0, SV{0});
      std::printf("OK\n");
    } else if (!std::strcmp(tok, "TICK")) {
      double out = rd();
      int ctl = rdi();
      int n = rdi();
      std::vector<typename MF::StampedReading> rs;
      for (int i = 0; i < n; ++i) {
        double t = rd();
        RB<HasCtl, HasCal, HN, HD> r;
        r.key = rdi();
        r.zid = rdi();
        rs.push_back(MF::wrap(t, r));
      }
      SV res;
      if constexpr (HasCtl) {
        res = (n < 0) ? mf->tick(out, Ctl{ctl}) : mf->tick(out, Ctl{ctl}, rs);
      } else {
        res = (n < 0) ? mf->tick(out) : mf->tick(out, rs);
      }
      std::printf("RET %d\n", res.id);
    } else {
      return 4;
    }
  }
  delete mf;
  return 0;
}

template <int HN, int HD>
int dispatch(int combo) {
  switch (combo) {
#if COMBOS & 1
    case 0: return run<true, true, HN, HD>();
#endif
#if COMBOS & 2
    case 1: return run<true, false, HN, HD>();
#endif
#if COMBOS & 4
    case 2: return run<false, true, HN, HD>();
#endif
#if COMBOS & 8
    case 3: return run<false, false, HN, HD>();
#endif
  }
  return 5;
}

int main() {
  int combo = rdi(), hn = rdi(), hd = rdi();
  if (hn == 1 && hd == 10) return dispatch<1, 10>(combo);
  if (hn == 1 && hd == 20) return dispatch<1, 20>(combo);
  if (hn == 1 && hd == 100) return dispatch<1, 100>(combo);
  if (hn == 1 && hd == 4) return dispatch<1, 4>(combo);
  if (hn == 3 && hd == 10) return dispatch<3, 10>(combo);
  if (hn == 1 && hd == 1) return dispatch<1, 1>(combo);
  if (hn == 1 && hd == 30) return dispatch<1, 30>(combo);
  if (hn == 1 && hd == 8) return dispatch<1, 8>(combo);
  if (hn == 1 && hd == 3000000) return dispatch<1, 3000000>(combo);
  if (hn == 1 && hd == 30000) return dispatch<1, 30000>(combo);
  return 6;
}
