// Drives the REAL formak/innovation_filtering.h (removeInnovation<m>) compiled against the Eigen stand-in.
// stdin: repeated  <m> <k> <y_0..y_{m-1}> <Sinv row-major m*m>     stdout: one line "0|1" per case
#include <formak/innovation_filtering.h>

#include <cstdio>
#include <cstdlib>

static double rd() { double v; if (std::scanf("%lf", &v) != 1) std::exit(3); return v; }

template <int M>
void one(double k) {
  Eigen::Matrix<double, M, 1> y;
  Eigen::Matrix<double, M, M> s;
  for (int i = 0; i < M; ++i) y(i, 0) = rd();
  for (int i = 0; i < M; ++i) for (int j = 0; j < M; ++j) s(i, j) = rd();
  std::printf("%d\n", formak::innovation_filtering::edit::removeInnovation<M>(k, y, s) ? 1 : 0);
}

int main() {
  int m;
  while (std::scanf("%d", &m) == 1) {
    double k = rd();
    switch (m) {
      case 1: one<1>(k); break;
      case 2: one<2>(k); break;
      case 3: one<3>(k); break;
      case 4: one<4>(k); break;
      case 8: one<8>(k); break;
      default: return 4;
    }
  }
  return 0;
}
