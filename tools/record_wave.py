#!/usr/bin/env python3
"""Record the formal evaluation of one seeding wave into seeded/<id><suffix>/meta.json.

usage: record_wave.py <wave> <suffix> <seed_eval batch log> <first-evaluation log> [notes.json]

* batch log: output of tools/seed_eval.sh per seed (lines "<seed>: demo unpatched ...", "   Cxx rc=.. ::", "<seed> RESULT ...")
* first-evaluation log: tools/wave_collect.sh output ("<seed> committed machinery Cxx rc=N :: first line"), i.e. what the
  machinery AS COMMITTED BEFORE the seed was seen reported
* notes.json: {seed id: "text describing why it was missed and what was strengthened"} for the missed ones
"""
import json
import os
import re
import sys

HERE = os.path.dirname(os.path.dirname(os.path.abspath(__file__)))
ORD = {1: "first", 2: "second", 3: "third", 4: "fourth", 5: "fifth", 6: "sixth", 7: "seventh", 8: "eighth"}


def main():
    wave, suffix, batch, first = int(sys.argv[1]), sys.argv[2], sys.argv[3], sys.argv[4]
    notes = json.load(open(sys.argv[5])) if len(sys.argv) > 5 else {}
    firsts = {}
    for line in open(first, errors="replace"):
        m = re.match(r"(C\d\d\w*) committed machinery (C\d\d) rc=(\d+) :: ?(.*)", line.rstrip("\n"))
        if m:
            firsts.setdefault(m.group(1), []).append((m.group(2), int(m.group(3)), line.rstrip("\n")))
    cur = None
    info = {}
    for line in open(batch, errors="replace"):
        line = line.rstrip("\n")
        m = re.match(r"(C\d\d\w*): demo unpatched rc=(\d+), patched rc=(\d+); (.*)", line)
        if m:
            cur = m.group(1)
            info[cur] = {"du": int(m.group(2)), "dp": int(m.group(3)), "baseline": m.group(4), "lines": [], "checks": {}, "tree": "HEAD"}
            continue
        m = re.match(r"\s+(C\d\d) rc=(\d+) (.*)", line)
        if m and cur:
            info[cur]["lines"].append(line.strip()[:400])
            continue
        m = re.match(r"(C\d\d\w*) RESULT .*checks=(.*) tree=(\S+)", line)
        if m and m.group(1) in info:
            for tok in m.group(2).split():
                c, rc = tok.split(":")
                info[m.group(1)]["checks"][c] = int(rc)
            info[m.group(1)]["tree"] = m.group(3)
    done = 0
    for sid, d in sorted(info.items()):
        if not sid.endswith(suffix):
            continue
        p = os.path.join(HERE, "seeded", sid, "meta.json")
        if not os.path.exists(p):
            print("no meta for", sid)
            continue
        meta = json.load(open(p))
        meta["wave"] = wave
        own = sid[:3]
        fl = firsts.get(sid, [])
        own_first = [x for x in fl if x[0] == own]
        caught_first = bool(own_first) and own_first[0][1] == 1
        sibling = [x[0] for x in fl if x[0] != own and x[1] == 1]
        short = "caught" if caught_first else ("MISSED (caught by sibling %s)" % ",".join(sibling) if sibling else "MISSED")
        if own_first and own_first[0][1] not in (0, 1):
            short = "MISSED (check did not finish: rc=%d)" % own_first[0][1]
        cb = {
            "procedure": ("tools/seed_eval.sh (fresh scratch worktree: demo unpatched, git apply, demo patched, 42 stable tests with the patch; then patch applied to /repo, checks at quick tier, undone)"
                          if not os.environ.get("SEED_SCRATCH") else
                          "SEED_SCRATCH=1 tools/seed_eval.sh (fresh scratch worktree of /repo HEAD: demo unpatched, git apply, demo patched, 42 stable tests with the patch; checks at quick tier run against a second scratch worktree of HEAD with the patch applied (FORMAK_REPO), because /repo was being read by the final thorough run)"),
            "tree": d["tree"],
            "demo_exit_unpatched": d["du"],
            "demo_exit_patched": d["dp"],
            "baseline_with_patch": d["baseline"],
            "checks_quick_tier": {c: ("VIOLATION reported" if rc == 1 else "silent" if rc == 0 else "rc=%d" % rc) for c, rc in d["checks"].items()},
            "first_violation_lines": d["lines"][:2],
            "first_wave_short": short,
            "machinery_before_%s_strengthening" % ORD.get(wave, str(wave)): [x[2][:400] for x in fl],
        }
        if sid in notes:
            cb["first_wave"] = notes[sid]
        elif caught_first:
            cb["first_wave"] = "caught by the machinery as committed before this seed was seen"
        meta["confirmed_by_main"] = cb
        json.dump(meta, open(p, "w"), indent=1)
        done += 1
    print("recorded", done, "seeds of wave", wave)


if __name__ == "__main__":
    main()
