#!/bin/bash
# tools/seed_eval.sh <ID> [checks...]  - independently confirm a seeded change and run checks against it.
# 1. fresh scratch worktree of /repo HEAD; demo must pass there; 2. apply patch: demo must fail, 42 stable tests must pass;
# 3. apply the patch to /repo itself, run the checks, undo it straight afterwards.
id=$1; shift; checks="$@"
S=/verif/seeded/$id
W=/tmp/ver_$id
git -C /repo worktree remove --force $W 2>/dev/null
git -C /repo worktree add -q --detach $W HEAD || exit 2
mkdir -p $W/SEED && cp -r $S/* $W/SEED/ 2>/dev/null
demo=$(ls $W/SEED/demo.* | head -1)
run_demo() { (cd $W && case "$demo" in *.py) PYTHONPATH=$W/py MPLBACKEND=Agg PYTHONDONTWRITEBYTECODE=1 /venv/bin/python SEED/$(basename $demo);; *) bash SEED/$(basename $demo);; esac) >/tmp/ver_$id.demo.log 2>&1; echo $?; }
d0=$(run_demo)
(cd $W && git apply SEED/patch.diff) || { echo "$id: PATCH DOES NOT APPLY"; git -C /repo worktree remove --force $W; exit 2; }
d1=$(run_demo)
base=$(FORMAK_REPO=$W /verif/tools/baseline.py 2>&1 | head -1)
git -C /repo worktree remove --force $W
echo "$id: demo unpatched rc=$d0, patched rc=$d1; $base"
res=""
if [ -n "$checks" ]; then
  git -C /repo apply $S/patch.diff || exit 2
  for c in $checks; do
    out=$(VERIF_EVIDENCE_DIR=/tmp/ver_evidence /verif/check $c --tier ${TIER:-quick} 2>&1); rc=$?
    first=$(echo "$out" | grep -m1 '^  key=' | cut -c1-220)
    echo "   $c rc=$rc $(echo "$out" | grep -c '^VIOLATION') violations :: $first"
    res="$res $c:$rc"
  done
  git -C /repo checkout -- . 
  git -C /repo status --short | grep -v '^??' | head -3
fi
echo "$id RESULT demo=$d0/$d1 baseline='$base' checks=$res"
