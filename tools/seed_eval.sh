#!/bin/bash
# tools/seed_eval.sh <ID> [checks...]  - independently confirm a seeded change and run checks against it.
# (set SEED_SCRATCH=1 to leave /repo untouched and use a scratch worktree for the checks as well)
# 1. fresh scratch worktree of /repo HEAD; demo must pass there; 2. apply patch: demo must fail, 42 stable tests must pass;
# 3. apply the patch to /repo itself, run the checks, undo it straight afterwards.
id=$1; shift; checks="$@"
S=/verif/seeded/$id
W=/tmp/ver_$id
git -C /repo worktree remove --force $W 2>/dev/null
# a seed is confirmed on the tree it was written for: /repo HEAD if the patch still applies there, otherwise the commit named
# in SEED_BASE (seeds of waves 1-4 were written against 73b5d21, before the fixes D12/D13 changed the code some of them edit)
BASE=HEAD
git -C /repo apply --check $S/patch.diff 2>/dev/null || BASE=${SEED_BASE:-73b5d21}
git -C /repo worktree add -q --detach $W $BASE || exit 2
mkdir -p $W/SEED && cp -r $S/* $W/SEED/ 2>/dev/null
demo=$(ls $W/SEED/demo.* | head -1)
run_demo() { (cd $W && case "$demo" in *.py) PYTHONPATH=$W/py MPLBACKEND=Agg PYTHONDONTWRITEBYTECODE=1 /venv/bin/python SEED/$(basename $demo);; *) bash SEED/$(basename $demo);; esac) >/tmp/ver_$id.demo.log 2>&1; echo $?; }
d0=$(run_demo)
(cd $W && git apply SEED/patch.diff) || { echo "$id: PATCH DOES NOT APPLY"; git -C /repo worktree remove --force $W; exit 2; }
d1=$(run_demo)
base=$(FORMAK_REPO=$W /verif/tools/baseline.py 2>&1 | head -1)
git -C /repo worktree remove --force $W
echo "$id: demo unpatched rc=$d0, patched rc=$d1; $base"
res=""
# SEED_SCRATCH=1: run the checks against a scratch worktree of HEAD with the patch applied instead of patching /repo itself
# (same code, FORMAK_REPO points at it) - used when /repo is busy being read by a long thorough run
if [ -n "$checks" ] && { [ "$BASE" != HEAD ] || [ -n "$SEED_SCRATCH" ]; }; then
  # the patch no longer applies to /repo HEAD: run the checks against a scratch worktree of the seed's base commit instead
  git -C /repo worktree add -q --detach $W $BASE && (cd $W && git apply $S/patch.diff) || exit 2
  for c in $checks; do
    out=$(FORMAK_REPO=$W VERIF_EVIDENCE_DIR=/tmp/ver_evidence /verif/check $c --tier ${TIER:-quick} 2>&1); rc=$?
    first=$(echo "$out" | grep -m1 '^  key=' | cut -c1-220)
    echo "   $c rc=$rc $(echo "$out" | grep -c '^VIOLATION') violations [tree $BASE] :: $first"
    res="$res $c:$rc"
  done
  git -C /repo worktree remove --force $W
elif [ -n "$checks" ]; then
  git -C /repo apply $S/patch.diff || exit 2
  for c in $checks; do
    out=$(VERIF_EVIDENCE_DIR=/tmp/ver_evidence /verif/check $c --tier ${TIER:-quick} 2>&1); rc=$?
    first=$(echo "$out" | grep -m1 '^  key=' | cut -c1-220)
    echo "   $c rc=$rc $(echo "$out" | grep -c '^VIOLATION') violations :: $first"
    res="$res $c:$rc"
  done
  git -C /repo checkout -- . 
  git -C /repo status --short | grep -v '^??' | head -3
fi
echo "$id RESULT demo=$d0/$d1 baseline='$base' checks=$res tree=$BASE"
