#!/usr/bin/env python3
"""Writes /tmp/prompt2_<id>.txt for the second wave of seeding sub-agents (property text + a category hint only)."""
import json

CAT = {
 'C01': 'caching, memoisation or shared mutable state between compiled models or between successive calls; or a special-case shortcut for certain expression shapes',
 'C02': 'a special case in C++ code generation on particular expression shapes (constants, zero derivative entries, negative numbers, integer powers, particular functions, temporaries), or something that depends on which control/calibration presence combination is generated',
 'C03': 'an interplay with simplification / common-subexpression elimination, or a special case for zero, constant or identical Jacobian entries, or something that depends on calibration being present',
 'C04': 'in-place modification, aliasing of returned arrays, or hidden state carried between calls; or noise handling that only matters for particular noise assignments',
 'C05': 'in-place numpy operations / aliasing, or records (innovation, innovation covariance) that go stale or get mixed between different sensors or successive calls',
 'C06': 'the Python filter or the C++ helper function (not the code generator config), dimension-dependent or boundary-dependent',
 'C07': 'types, sizes, accessors or constructors in the generated C++ class fragments (Options / Reading / State / Covariance) that only matter for certain shapes, or a difference in how the two sides treat a configuration value',
 'C08': 'the C++ generation path (cpp.BasicBlock / simplification step), or a case where CSE changes results only for particular sharing patterns across outputs',
 'C09': 'the numerics of the predict or update formulas (order of operations, intermediate forms) that keep single steps looking right but degrade validity after several steps or for particular covariance structures',
 'C10': 'the Python runtime, at floating-point boundaries of the step count / remainder computation, or dependent on the magnitude of the times involved',
 'C11': 'the C++ runtime tick overloads, or the Python runtime with several readings in one tick (duplicates, equal timestamps, readings before the held time)',
 'C12': 'the generator side (Tag typedefs, StampedReadingBase / Reading fragments, sensor_model signatures) for specific combinations of control / calibration / sensors',
 'C13': 'the construction helpers (named vectors / covariances, from_dict, from_data, make_reading) rather than the model compilation',
 'C14': 'a validation check that is weakened or bypassed only in a specific structural situation (NOT by swallowing an exception)',
 'C15': 'dependence on set iteration order / the process hash seed (rather than on declaration order)',
 'C16': 'score or mahalanobis rather than transform, or estimator state leaking between successive calls',
 'C17': 'clone / get_params / round-tripping, or how fit restores or rebuilds parameters',
 'C18': 'path search, or grid selection / what is exported after fitting',
 'C19': 'the integration terms or the orientation update: a sign or factor that vanishes for the inputs ordinary tests use (identity orientation, zero rates, unit quaternions, zero bias)',
}

T = '''You are working in a scratch git worktree of the open-source repository buckbaskin/formak at {wt} (FormaK: a Python library that turns sympy state/sensor models into Python and C++ Extended Kalman Filter code, with common-subexpression elimination, innovation filtering and a "managed filter" runtime in Python (py/formak/runtime.py) and C++ (cpp/runtime/include/formak/runtime/ManagedFilter.h)). Work ONLY inside {wt}. Do not modify /repo, and do not read or touch anything under /verif.

This is a mutation-testing exercise for a verification study: I need a realistic, subtle regression that breaks ONE stated property of the library, so that I can check whether independent verification machinery (which you must not look at) detects it.

THE PROPERTY ({pid}: {title})
{statement}
It is meant to hold: {quant}

YOUR TASK
Change the library source in the worktree (files under py/formak/ and/or cpp/) so that this property is BROKEN, while
  (a) everything still imports / generates / compiles, and
  (b) the repository's existing stable tests still pass (the 42 test ids listed under "stable_pass" in /root/.vp/BASELINE.json; run them with:  cd {wt} && /venv/bin/python -m pytest -q -p no:cacheprovider --timeout=900 --continue-on-collection-errors py/test experimental/test 2>&1 | tail -40   and confirm none of those 42 fails).
The change must look like a plausible slip a maintainer could make, NOT a blunt removal of the feature or an unconditional exception. It must need something SPECIFIC to manifest - an unusual input or shape, a particular configuration, a multi-step sequence of calls, a particular boundary value, or two cooperating sites that each look fine alone - rather than something any ordinary single call exposes at once. Keep it small (a few lines).
For THIS exercise, look for a change in this area (a first round already covered the most obvious ordering slips, so please be more inventive): {cat}.

DELIVERABLES (create directory {wt}/SEED):
  1. {wt}/SEED/patch.diff  - `git diff` of the library sources only (not SEED/).
  2. {wt}/SEED/demo.py (or demo.sh) - a small self-contained demonstration that exits 0 when the property holds and non-zero (with a short message) when it is violated. It must FAIL with your patch applied and PASS on the unpatched tree. It is run as:  cd {wt} && PYTHONPATH={wt}/py MPLBACKEND=Agg PYTHONDONTWRITEBYTECODE=1 /venv/bin/python SEED/demo.py
  3. {wt}/SEED/meta.json - {{"property": "{pid}", "summary": "...", "needs": "what specific input/sequence/configuration it takes to manifest", "files_changed": [...], "how_verified": "commands you ran and what you saw"}}
Verify all of it yourself: run the demo with the patch (must fail) and without it (must pass), and run the test command above with the patch applied. IMPORTANT: NEVER use `git stash` (the stash is shared between all worktrees of this repository and other people are working in sibling worktrees); to test the unpatched tree use:  git diff -- py cpp > SEED/patch.diff && git apply -R SEED/patch.diff ; <run demo> ; git apply SEED/patch.diff . Leave the worktree with your patch applied and uncommitted. Do not commit.

ENVIRONMENT NOTES
- Python is /venv/bin/python (3.12, numpy 2.x, sympy, scipy, scikit-learn). formak is not pip-installed: always set PYTHONPATH={wt}/py and run with the current directory = {wt} (the C++ generator loads templates from the relative path py/formak/templates/).
- formak.cpp.compile / compile_ekf read sys.argv (`--header X --source Y --namespace N`); set sys.argv before calling them. The header path must contain "generated/" for the source to include the right header name.
- There is no network, no Bazel and no Eigen. g++ 12 is available. ManagedFilter.h does not need Eigen, so C++ runtime behaviour can be demonstrated by compiling a small driver with g++ -std=c++17 -I {wt}/cpp/runtime/include. For generated filter code (which includes <Eigen/Dense>) demonstrate on the generated text, or write a tiny stand-in of your own inside SEED/ if you need to execute it.
- Multi-reading sensors need string reading names (e.g. {{"gps": {{"r1": x, "r2": y}}}}).
- The tree you start from already contains recent fixes; `git log --oneline | head` shows them. Importing formak takes ~3 s; a scikit-learn fit takes seconds.
Finish with a 5-line summary of the change, what it needs to manifest, and the verification you performed.'''

for l in open('/verif/properties.jsonl'):
    p = json.loads(l)
    pid = p['id']
    wt = f'/tmp/seed2_{pid}'
    open(f'/tmp/prompt2_{pid}.txt', 'w').write(T.format(wt=wt, pid=pid, title=p['title'], statement=p['statement'],
                                                        quant=p['quantifier']['text'], cat=CAT[pid]))
print('written')
