#!/usr/bin/env python3
"""First-wave detection experiment: apply each hand-written property-breaking edit (DESIGN.md section 6) to a scratch
worktree of /repo, run the named checks with FORMAK_REPO pointing at it, record which fire, revert.

usage: tools/mutate.py [--only NAME_SUBSTR] [--tier quick] [--baseline]   (writes /verif/mutations/results.json)
"""
import argparse
import json
import os
import subprocess
import sys
import time

VERIF = os.path.dirname(os.path.dirname(os.path.abspath(__file__)))
WT = os.environ.get("MUT_WT", "/tmp/fv_mut_wt")
PY = "py/formak/python.py"
CPP = "py/formak/cpp.py"
FR = "py/formak/ast_fragments.py"
RT = "py/formak/runtime.py"
MF = "cpp/runtime/include/formak/runtime/ManagedFilter.h"
CM = "py/formak/common.py"
SM = "py/formak/ui_state_machine.py"
IMU = "py/formak/reference_models/strapdown_imu.py"
UIM = "py/formak/ui_model.py"

# (name, file, old, new, [checks expected to fire], semantics-preserving?)
M = [
    ("c01-arglist-control-before-calibration", PY, "            + self.arglist_state\n            + self.arglist_calibration\n            + self.arglist_control\n        )\n\n        self.State = common.named_vector(\"State\", self.arglist_state)\n        self.Control",
     "            + self.arglist_state\n            + self.arglist_control\n            + self.arglist_calibration\n        )\n\n        self.State = common.named_vector(\"State\", self.arglist_state)\n        self.Control", ["C01"]),
    ("c01-calibration-vector-in-map-order", PY, "        self.calibration_vector = np.array(\n            [[calibration_map[k] for k in self.arglist_calibration]]\n        ).transpose()\n        if self.calibration_vector.shape != (self.calibration_size, 1):\n            raise ModelConstructionError(\n                f\"calibration_vector shape",
     "        self.calibration_vector = np.array(\n            [list(calibration_map.values())]\n        ).transpose()\n        if self.calibration_vector.shape != (self.calibration_size, 1):\n            raise ModelConstructionError(\n                f\"calibration_vector shape", ["C01"]),
    ("c01-results-zipped-onto-reversed-names", PY, "                for state_id, result in zip(\n                    self.arglist_state,", "                for state_id, result in zip(\n                    reversed(self.arglist_state),", ["C01"]),
    ("c02-jacobian-transposed-index", CPP, "                assignment = f\"jacobian({idx}, {state_idx})\"", "                assignment = f\"jacobian({state_idx}, {idx})\"", ["C02"]),
    ("c02-state-options-ctor-reversed", FR, "                \", \".join(f\"options.{name}\" for name in generator.arglist_state),", "                \", \".join(f\"options.{name}\" for name in reversed(generator.arglist_state)),", ["C02", "C07"]),
    ("c02-noise-under-other-control", CPP, "                elif i == j and iKey in covariance:\n                    value = covariance[iKey]", "                elif i == j and iKey in covariance:\n                    value = covariance[self.arglist_control[-1 - i]]", ["C02"]),
    ("c03-process-jacobian-transposed", PY, "                result = computed_jacobian[row * self.state_size + col]", "                result = computed_jacobian[col * self.state_size + row]", ["C03"]),
    ("c03-control-jacobian-stride", PY, "                result[row, col] = computed_jacobian[row * self.control_size + col]", "                result[row, col] = computed_jacobian[(row * self.state_size + col) % max(1, len(computed_jacobian))]", ["C03"]),
    ("c04-drop-control-noise-term", PY, "        next_covariance = next_state_covariance + next_control_covariance\n", "        next_covariance = next_state_covariance\n", ["C04"]),
    ("c04-GtPG", PY, "            G_t, np.matmul(covariance.data, G_t.transpose())\n", "            G_t.transpose(), np.matmul(covariance.data, G_t)\n", ["C04"]),
    ("c04-noise-on-mirrored-control", PY, "                process_noise_matrix[iIdx, jIdx] = value\n                process_noise_matrix[jIdx, iIdx] = value", "                process_noise_matrix[-1 - iIdx, -1 - jIdx] = value\n                process_noise_matrix[-1 - jIdx, -1 - iIdx] = value", ["C04"]),
    ("c05-I-plus-KH", PY, "        I_KH = np.eye(self.state_size) - np.matmul(K_t, H_t)", "        I_KH = np.eye(self.state_size) + np.matmul(K_t, H_t)", ["C05"]),
    ("c05-joseph-drop-KQKt", PY, "        ) + np.matmul(K_t, np.matmul(Q_t.data, K_t.transpose()))", "        )", ["C05", "C07"]),
    ("c05-gain-without-Sinv", PY, "            covariance.data, np.matmul(H_t.transpose(), S_inv)\n", "            covariance.data, np.matmul(H_t.transpose(), np.eye(len(S_inv)))\n", ["C05"]),
    ("c05-innovation-sign", PY, "            sensor_reading.data - expected_reading.data\n", "            expected_reading.data - sensor_reading.data\n", ["C05"]),
    ("c06-py-ge", PY, "        return normalized_innovation > expected_innovation", "        return normalized_innovation >= expected_innovation", ["C06"]),
    ("c06-helper-ge", "cpp/include/formak/innovation_filtering.h", "  return normalizedInnovation > innovationExpectation;", "  return normalizedInnovation >= innovationExpectation;", ["C06"]),
    ("c06-generated-no-early-return", "py/formak/templates/sensor_model.hpp", "    // Skip update\n    return state;\n", "    // Skip update\n", ["C06", "C07"]),
    ("c06-py-threshold-sqrt2-times-m", PY, "        expected_innovation = editing_threshold * sqrt(2 * sensor_size) + sensor_size", "        expected_innovation = editing_threshold * sqrt(2) * sensor_size + sensor_size", ["C06"]),
    ("c07-cpp-drop-VMVt", "py/formak/templates/process_model.cpp", "next_covariance.data = G * Sigma.data * G.transpose() + V * M * V.transpose();", "next_covariance.data = G * Sigma.data * G.transpose();", ["C07"]),
    ("c07-cpp-update-minus", "py/formak/templates/sensor_model.hpp", "next_state.data = mu.data + kalman_gain * innovation;", "next_state.data = mu.data - kalman_gain * innovation;", ["C07"]),
    ("c08-py-temporaries-off-by-one", PY, "                        self._arglist + temporaries[:i],", "                        self._arglist + temporaries[: max(i - 1, 0)],", ["C08", "C01"]),
    ("c08-cpp-prefix-reversed", CPP, "        for target, expr in prefix:\n            assert isinstance(target, Symbol)", "        for target, expr in reversed(prefix):\n            assert isinstance(target, Symbol)", ["C08", "C02"]),
    ("c09-absolute-gate-restored", PY, "    if np.any(covariance_eigenvalues < negative_tol * scale):", "    if np.any(covariance_eigenvalues < -1e-15):", ["C09", "C04"]),
    ("c09-symmetry-gate-absolute", PY, "    assert np.allclose(covariance, covariance.T, rtol=1e-5, atol=1e-8 * scale)", "    assert np.allclose(covariance, covariance.T)", ["C09"]),
    ("c09-standard-form-update", PY, "        next_covariance = np.matmul(\n            I_KH, np.matmul(covariance.data, I_KH.transpose())\n        ) + np.matmul(K_t, np.matmul(Q_t.data, K_t.transpose()))", "        next_covariance = covariance.data - np.matmul(K_t, np.matmul(H_t, covariance.data))", ["C09"]),
    ("c10-py-remainder-threshold-1e-3", RT, "        if abs(output_time - iter_time) >= 1e-9:", "        if abs(output_time - iter_time) >= 1e-3:", ["C10"]),
    ("c10-py-one-iteration-fewer", RT, "        for _ in range(expected_iterations):", "        for _ in range(max(expected_iterations - 1, 0)):", ["C10", "C11"]),
    ("c10-cpp-direction-flipped-back", MF, "      if (state.currentTime > outputTime) {\n        return -Impl::Tag::max_dt_sec;\n      }\n      return Impl::Tag::max_dt_sec;\n    })(_state);\n\n    typename Impl::Tag::StateAndVarianceT state = _state.state;\n\n    size_t expected_iterations = static_cast<size_t>(\n        std::abs(std::floor((outputTime - _state.currentTime) / max_dt)));\n\n    for (size_t count = 0; count < expected_iterations; ++count) {\n      if constexpr (!std::is_same_v<typename Impl::Tag::CalibrationT,\n                                    std::false_type>) {\n        state = _impl.process_model(max_dt, state, _calibration, control);",
     "      if (state.currentTime >= outputTime) {\n        return Impl::Tag::max_dt_sec;\n      }\n      return -Impl::Tag::max_dt_sec;\n    })(_state);\n\n    typename Impl::Tag::StateAndVarianceT state = _state.state;\n\n    size_t expected_iterations = static_cast<size_t>(\n        std::abs(std::floor((outputTime - _state.currentTime) / max_dt)));\n\n    for (size_t count = 0; count < expected_iterations; ++count) {\n      if constexpr (!std::is_same_v<typename Impl::Tag::CalibrationT,\n                                    std::false_type>) {\n        state = _impl.process_model(max_dt, state, _calibration, control);", ["C10", "C12"]),
    ("c11-py-hold-output-estimate", RT, "        _, state_and_variance = self._process_model(output_time, control)\n        return state_and_variance", "        self.current_time, state_and_variance = self._process_model(output_time, control)\n        self.state, self.covariance = state_and_variance\n        return state_and_variance", ["C11"]),
    ("c11-py-sort-readings", RT, "        for sensor_reading in readings:\n            assert isinstance", "        for sensor_reading in sorted(readings, key=lambda r: r.timestamp):\n            assert isinstance", ["C11"]),
    ("c11-cpp-hold-output-estimate", MF, "    ScopeTimer s(&_timeLog.tickTimeControl);\n\n    return processUpdate(outputTime, control).state;", "    ScopeTimer s(&_timeLog.tickTimeControl);\n\n    _state = processUpdate(outputTime, control);\n    return _state.state;", ["C11", "C12"]),
    ("c12-tag-calibration-always-false", FR, "    if generator.enable_calibration():\n        yield UsingDeclaration(\n            \"CalibrationT\",\n            \"Calibration\",\n        )\n    else:", "    if generator.enable_calibration() and generator.enable_control():\n        yield UsingDeclaration(\n            \"CalibrationT\",\n            \"Calibration\",\n        )\n    else:", ["C12"]),
    ("c12-mf-sensor-without-calibration", MF, "  typename Impl::Tag::StateAndVarianceT tick(\n      double outputTime, const std::vector<StampedReading>& readings) {\n    static_assert(\n        std::is_same_v<typename Impl::Tag::ControlT, std::false_type>);\n    ScopeTimer s(&_timeLog.tickTimeReadings);\n\n    for (const auto& stampedReading : readings) {\n      _state = processUpdate(stampedReading.timestamp);",
     "  typename Impl::Tag::StateAndVarianceT tick(\n      double outputTime, const std::vector<StampedReading>& readings) {\n    static_assert(\n        std::is_same_v<typename Impl::Tag::ControlT, std::false_type>);\n    ScopeTimer s(&_timeLog.tickTimeReadings);\n\n    for (const auto& stampedReading : readings) {\n      _state.currentTime = stampedReading.timestamp;", ["C12", "C11"]),
    ("c13-named-vector-positional", CM, "            for idx, key in enumerate(allowed_keys):\n                if key in kwargs:\n                    val = kwargs[key]\n                    self.data[idx, 0] = val", "            for idx, key in enumerate(kwargs):\n                if key in allowed_keys:\n                    val = kwargs[key]\n                    self.data[idx, 0] = val", ["C13", "C01"]),
    ("c13-cpp-accessors-reversed", FR, "                    for idx, name in enumerate(generator.arglist_state)\n                ]\n            )\n        )\n        + [\n            MemberDeclaration(\"DataT\", \"data\", \"DataT::Zero()\"),\n        ],\n    )\n\n\ndef ControlOptions", "                    for idx, name in enumerate(reversed(generator.arglist_state))\n                ]\n            )\n        )\n        + [\n            MemberDeclaration(\"DataT\", \"data\", \"DataT::Zero()\"),\n        ],\n    )\n\n\ndef ControlOptions", ["C02", "C13", "C07"]),
    ("c14-drop-disjoint-check", UIM, "        if not set(self.state).isdisjoint(set(self.control)):", "        if False and not set(self.state).isdisjoint(set(self.control)):", ["C14"]),
    ("c14-drop-process-noise-key-check", CM, "        if key not in allowed_keys:\n            render", "        if False and key not in allowed_keys:\n            render", ["C14"]),
    ("c14-drop-sensor-free-symbol-check", CM, "                if not set(model.free_symbols).issubset(allowed_symbols):", "                if False and not set(model.free_symbols).issubset(allowed_symbols):", ["C14"]),
    ("c14-drop-sensor-noise-key-and-size-match", PY, "        assert set(sensor_models.keys()) == set(sensor_noises.keys())\n        assert isinstance(sensor_noises, dict)\n        assert len(sensor_noises) == len(sensor_models)\n", "        assert isinstance(sensor_noises, dict)\n", ["C14"]),
    ("c15-cpp-sensorlist-unsorted-from-set", CPP, "        self.sensorlist = sorted(\n            [(k, v, sensor_noises[k]) for k, v in sensor_models.items()]\n        )", "        self.sensorlist = [\n            (k, sensor_models[k], sensor_noises[k]) for k in set(sensor_models.keys())\n        ]", ["C15"]),
    ("c15-py-arglist-unsorted", PY, "        self.arglist_state = sorted(list(symbolic_model.state), key=lambda x: x.name)\n        self.arglist_calibration = sorted(\n            list(symbolic_model.calibration), key=lambda x: x.name\n        )\n        self.arglist_control = sorted(\n            list(symbolic_model.control), key=lambda x: x.name\n        )\n        self.arglist = (", "        self.arglist_state = sorted(list(symbolic_model.state), key=lambda x: x.name)\n        self.arglist_calibration = list(symbolic_model.calibration)\n        self.arglist_control = sorted(\n            list(symbolic_model.control), key=lambda x: x.name\n        )\n        self.arglist = (", ["C15", "C13"]),
    ("c16-slice-from-control-plus-one", PY, "                X[idx, self.model_.control_size :],", "                X[idx, self.model_.control_size + (1 if self.model_.control_size > 1 else 0) :],", ["C16"]),
    ("c16-unsorted-sensor-keys", PY, "            for idx, key in enumerate(sorted(list(self.model_.sensor_models))):", "            for idx, key in enumerate(list(self.model_.sensor_models)):", ["C16"]),
    ("c16-dt-0.2", PY, "        dt = 0.1\n\n        state = self.model_.State()", "        dt = 0.2\n\n        state = self.model_.State()", ["C16"]),
    ("c17-set-params-wrong-field", PY, "                mutable_version[key] = params[key]", "                mutable_version[key if key != \"max_dt_sec\" else \"innovation_filtering\"] = params[key]", ["C17"]),
    ("c17-inverse-flatten-unsorted-keys", PY, "            sensor, flattened = flattened[:sensor_size], flattened[sensor_size:]\n\n            arglist = sorted(list(mapping.keys()))", "            sensor, flattened = flattened[:sensor_size], flattened[sensor_size:]\n\n            arglist = sorted(list(mapping.keys()), reverse=True)", ["C17"]),
    ("c18-search-drops-last", SM, "            if current_state.state_id() == end_state:\n                return transitions", "            if current_state.state_id() == end_state:\n                return transitions[:-1]", ["C18"]),
    ("c18-history-not-appended", SM, "        super().__init__(name=name, history=history + [self.state_id()])\n        self.model = model", "        super().__init__(name=name, history=history)\n        self.model = model", ["C18"]),
    ("c18-configview-default-filtering", SM, "        return self._params[\"innovation_filtering\"]", "        return python.Config().innovation_filtering", ["C18"]),
    ("c19-gravity-sign", IMU, "_accel_gravity = ui.Matrix([0, 0, -g])", "_accel_gravity = ui.Matrix([0, 0, g])", ["C19"]),
    ("c19-bias-sign", IMU, "active_imu_accel = [imu_accel[i] - accel_sensor_bias[i] for i in range(3)]", "active_imu_accel = [imu_accel[i] + accel_sensor_bias[i] for i in range(3)]", ["C19"]),
    ("c19-conjugate-sign", IMU, "    orientation.a, -orientation.b, -orientation.c, -orientation.d\n", "    orientation.a, -orientation.b, -orientation.c, orientation.d\n", ["C19"]),
    ("c19-orientation-factor", IMU, "_next_orientation = (0.5 * active_orientation", "_next_orientation = (1.0 * active_orientation", ["C19"]),
    ("c05-module-level-jacobian-cache", PY, "        H_t = self.sensor_jacobian(sensor_key, state)\n        assert H_t.shape == (sensor_size, self.state_size)",
     "        _key = (sensor_key, sensor_size, self.state_size, tuple(float(v) for v in state.data.ravel()))\n        if _key not in _H_CACHE:\n            _H_CACHE[_key] = self.sensor_jacobian(sensor_key, state)\n        H_t = _H_CACHE[_key]\n        assert H_t.shape == (sensor_size, self.state_size)", ["C05"]),
    ("c04-module-level-noise-cache", PY, "        self.process_noise = process_noise_matrix\n", "        self.process_noise = _M_CACHE.setdefault(tuple(str(c) for c in self.arglist_control), process_noise_matrix)\n", ["C04"]),
    ("c06-cpp-discard-symmetrises", "py/formak/templates/sensor_model.hpp", "    // Skip update\n    return state;\n", "    // Skip update\n    StateAndVariance skipped = state;\n    skipped.covariance.data = 0.5 * (state.covariance.data + state.covariance.data.transpose());\n    return skipped;\n", ["C06"]),
    ("c06-py-discard-symmetrises", PY, "        if self.remove_innovation(innovation, S_inv):\n            return StateAndCovariance(state, covariance)\n", "        if self.remove_innovation(innovation, S_inv):\n            return StateAndCovariance(state, self.Covariance.from_data((covariance.data + covariance.data.transpose()) / 2.0))\n", ["C06"]),
    ("c08-py-temporary-names-not-reserved", PY, "Symbol(f\"_t{i}\") for i in count() if f\"_t{i}\" not in reserved\n", "Symbol(f\"_t{i}\") for i in count() if reserved is not None\n", ["C08"]),
    ("c08-cpp-temporary-names-not-reserved", CPP, "Symbol(f\"_t{i}\") for i in count() if f\"_t{i}\" not in reserved\n", "Symbol(f\"_t{i}\") for i in count() if reserved is not None\n", ["C08"]),
    ("c05-limit-from-min-of-readings-and-states", PY, "        (sensor_size, _) = innovation.shape\n", "        (sensor_size, _) = innovation.shape\n        sensor_size = min(sensor_size, self.state_size)\n", ["C05", "C06"]),
    ("c01-temporaries-kept-from-first-call", PY, "        temporary_values = {}\n        for name, expr in self._prefix:\n            temporary_values[str(name)] = expr(*args, **kwargs, **temporary_values)\n", "        temporary_values = self.__dict__.setdefault(\"_tv\", {})\n        for name, expr in self._prefix:\n            if str(name) not in temporary_values:\n                temporary_values[str(name)] = expr(*args, **kwargs, **temporary_values)\n", ["C01", "C08"]),
    # semantics-preserving variants: must stay silent
    ("ok-eigvalsh-on-symmetrised-copy", PY, "    covariance_eigenvalues = np.linalg.eigvalsh((covariance + covariance.T) / 2.0)", "    covariance_eigenvalues = np.linalg.eigvalsh(0.5 * (covariance + covariance.T))", [], True),
    ("ok-model-construction-error-for-assert", PY, "        assert len(process_noise) == self.control_size\n", "        if len(process_noise) != self.control_size:\n            raise ModelConstructionError(\"process noise size\")\n", [], True),
    ("ok-py-equal-size-steps", RT, "        expected_iterations = abs(floor((output_time - self.current_time) / max_dt))\n\n        for _ in range(expected_iterations):\n            state, covariance = self._impl.process_model(\n                max_dt, state, covariance, control\n            )\n\n        iter_time = self.current_time + max_dt * expected_iterations\n        if abs(output_time - iter_time) >= 1e-9:\n            state, covariance = self._impl.process_model(\n                output_time - iter_time, state, covariance, control\n            )",
     "        import math\n        total = output_time - self.current_time\n        if abs(total) >= 1e-9:\n            pieces = max(1, math.ceil(abs(total) / abs(max_dt) - 1e-12))\n            for _ in range(pieces):\n                state, covariance = self._impl.process_model(\n                    total / pieces, state, covariance, control\n                )", [], True),
]

SILENT_CHECKS = {"ok-eigvalsh-on-symmetrised-copy": ["C04", "C09"], "ok-model-construction-error-for-assert": ["C04", "C14"],
                 "ok-py-equal-size-steps": ["C10", "C11"]}


def sh(cmd, **kw):
    return subprocess.run(cmd, shell=True, capture_output=True, text=True, **kw)


def main():
    ap = argparse.ArgumentParser()
    ap.add_argument("--only", default="")
    ap.add_argument("--tier", default="quick")
    ap.add_argument("--baseline", action="store_true", help="also run the repository's 42 stable tests on each mutant")
    a = ap.parse_args()
    sh(f"git -C /repo worktree remove --force {WT}")
    r = sh(f"git -C /repo worktree add --detach {WT} HEAD")
    assert r.returncode == 0, r.stderr
    results = {}
    resfile = os.path.join(VERIF, "mutations", "results.json")
    os.makedirs(os.path.dirname(resfile), exist_ok=True)
    if os.path.exists(resfile):
        results = json.load(open(resfile))
    try:
        for m in M:
            name, path, old, new, expect = m[:5]
            preserving = len(m) > 5 and m[5]
            if a.only and a.only not in name:
                continue
            full = os.path.join(WT, path)
            src = open(full).read()
            if src.count(old) != 1:
                print(f"{name}: SKIP - anchor occurs {src.count(old)} times in {path}")
                results[name] = {"status": "anchor-missing"}
                continue
            mutated = src.replace(old, new)
            for glob in ("_H_CACHE", "_M_CACHE"):
                if glob in new:
                    mutated = mutated.replace("DEFAULT_MODULES = (", glob + " = {}\nDEFAULT_MODULES = (", 1)
            open(full, "w").write(mutated)
            diff = sh(f"git -C {WT} diff").stdout
            os.makedirs(os.path.join(VERIF, "mutations"), exist_ok=True)
            open(os.path.join(VERIF, "mutations", name + ".patch"), "w").write(diff)
            rec = {"file": path, "expected": expect, "checks": {}, "preserving": preserving}
            checks = expect if not preserving else SILENT_CHECKS[name]
            for cid in checks:
                t0 = time.time()
                p = sh(f"FORMAK_REPO={WT} VERIF_EVIDENCE_DIR=/tmp/fv_mut_evidence {VERIF}/check {cid} --tier {a.tier}")
                fired = [l for l in p.stdout.splitlines() if l.startswith("VIOLATION")]
                keys = [l.strip() for l in p.stdout.splitlines() if l.startswith("  key=")]
                rec["checks"][cid] = {"rc": p.returncode, "violations": len(fired), "first": keys[0][:300] if keys else "",
                                      "wall": round(time.time() - t0, 1)}
            if a.baseline:
                p = sh(f"FORMAK_REPO={WT} {VERIF}/tools/baseline.py")
                rec["baseline"] = p.stdout.strip().splitlines()[0] if p.stdout else p.stderr[-200:]
            open(full, "w").write(src)
            if preserving:
                rec["status"] = "silent" if all(c["rc"] == 0 for c in rec["checks"].values()) else "FALSE-ALARM"
            else:
                rec["status"] = "detected" if any(c["rc"] == 1 for c in rec["checks"].values()) else "MISSED"
            results[name] = rec
            print(f"{name}: {rec['status']}  " + "  ".join(f"{c}:rc{v['rc']}/{v['violations']}v" for c, v in rec["checks"].items())
                  + (f"  [{rec.get('baseline', '')}]" if a.baseline else ""), flush=True)
            json.dump(results, open(resfile, "w"), indent=1)
    finally:
        sh(f"git -C /repo worktree remove --force {WT}")
        sh("rm -rf /tmp/fv_mut_evidence")


if __name__ == "__main__":
    main()
