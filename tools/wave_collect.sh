#!/bin/bash
# tools/wave_collect.sh <N> <suffix> : collect the seeds of wave N (worktrees /tmp/seed<N>_Cxx) into seeded/Cxx<suffix>, remove the
# worktrees, and run the COMMITTED machinery (git HEAD of /verif, uncommitted edits stashed away in a separate worktree) against each
# seed applied to the dev worktree $DEV_WT (default /tmp/dev_wt)  ->  /tmp/wave<N>_first.log
N=$1; SUF=$2; DEV=${DEV_WT:-/tmp/dev_wt}
[ -d $DEV ] || git -C /repo worktree add -q --detach $DEV HEAD
cd /verif
for i in 01 02 03 04 05 06 07 08 09 10 11 12 13 14 15 16 17 18 19; do
  mkdir -p seeded/C${i}${SUF}; cp -r /tmp/seed${N}_C$i/SEED/. seeded/C${i}${SUF}/ 2>/dev/null
  (cd /tmp/seed${N}_C$i && git diff -- py cpp) | diff -q - seeded/C${i}${SUF}/patch.diff >/dev/null || echo "C${i}${SUF}: patch.diff differs from worktree diff"
  git -C /repo worktree remove --force /tmp/seed${N}_C$i
done
git -C /repo worktree prune; rm -f /tmp/prompt${N}_C*.txt
git stash -q; git worktree add -q --detach /tmp/verif_old HEAD; git stash pop -q
(cd $DEV && git checkout -q -- . && git checkout -q --detach $(git -C /repo rev-parse HEAD))
for i in 01 02 03 04 05 06 07 08 09 10 11 12 13 14 15 16 17 18 19; do
  id=C$i
  (cd $DEV && git apply /verif/seeded/${id}${SUF}/patch.diff) || { echo "${id}${SUF} patch failed"; continue; }
  out=$(FORMAK_REPO=$DEV VERIF_EVIDENCE_DIR=/tmp/ev_tmp python3 /verif/tools/run_with_timeout.py ${WAVE_TIMEOUT:-900} /tmp/verif_old/check $id 2>&1)
  echo "${id}${SUF} committed machinery $id rc=$? :: $(echo "$out" | grep -m1 -E '  key=|TIMEOUT' | cut -c1-170)"
  (cd $DEV && git checkout -q -- .)
done 2>&1 | tee /tmp/wave${N}_first.log
git worktree remove --force /tmp/verif_old
