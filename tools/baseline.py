#!/usr/bin/env python3
"""Run the repository's pinned baseline suite (guard OFF) and compare with /root/.vp/BASELINE.json stable_pass."""
import json, os, subprocess, sys, tempfile, xml.etree.ElementTree as ET

repo = os.environ.get("FORMAK_REPO", "/repo")
base = json.load(open("/root/.vp/BASELINE.json"))
out = tempfile.mktemp(suffix=".junit.xml")
env = {k: v for k, v in os.environ.items() if k != "FORMAK_VERIF"}
cmd = ["/venv/bin/python", "-m", "pytest", "-ra", "-q", "-p", "no:cacheprovider", "--timeout=900",
       "--continue-on-collection-errors", f"--junitxml={out}"]
p = subprocess.run(cmd, cwd=repo, env=env, capture_output=True, text=True)
passed = set()
for tc in ET.parse(out).getroot().iter("testcase"):
    if not any(c.tag in ("failure", "error", "skipped") for c in tc):
        passed.add(f"{tc.get('classname')}::{tc.get('name')}")
os.unlink(out)
missing = [t for t in base["stable_pass"] if t not in passed]
print(f"baseline: {len(base['stable_pass']) - len(missing)}/{len(base['stable_pass'])} stable tests pass; "
      f"{len(passed)} tests pass in total")
for m in missing:
    print("  NOT PASSING:", m)
sys.exit(1 if missing else 0)
