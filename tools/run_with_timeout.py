#!/usr/bin/env python3
"""run_with_timeout.py SECONDS cmd... : run cmd in its own process group, kill the whole group on timeout (exit 124)."""
import os, signal, subprocess, sys
t = float(sys.argv[1])
p = subprocess.Popen(sys.argv[2:], start_new_session=True)
try:
    sys.exit(p.wait(timeout=t))
except subprocess.TimeoutExpired:
    os.killpg(p.pid, signal.SIGKILL)
    print(f"TIMEOUT after {t} s")
    sys.exit(124)
