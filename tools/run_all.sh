#!/bin/bash
# usage: tools/run_all.sh [quick|thorough] [ids...]   - runs checks sequentially, one summary line each
cd "$(dirname "$0")/.."
tier="${1:-quick}"; shift
ids="$@"; [ -z "$ids" ] && ids="C01 C02 C03 C04 C05 C06 C07 C08 C09 C10 C11 C12 C13 C14 C15 C16 C17 C18 C19"
rc_all=0
for id in $ids; do
  s=$(date +%s)
  out=$(./check $id --tier $tier 2>&1); rc=$?
  e=$(date +%s)
  echo "$id rc=$rc $((e-s))s :: $(echo "$out" | grep -c '^VIOLATION') violations, $(echo "$out" | grep -c '^KNOWN-FINDING') known :: $(echo "$out" | tail -1 | cut -c1-200)"
  [ $rc -ne 0 ] && { rc_all=1; echo "$out" | grep -A1 -E '^(VIOLATION|HARNESS)' | head -8; }
done
exit $rc_all
