#!/usr/bin/env python3
"""Refresh the detection tables of DESIGN.md (sections 9.3 / 9.4) from mutations/results.json and seeded/*/meta.json."""
import glob
import json
import os
import re

HERE = os.path.dirname(os.path.dirname(os.path.abspath(__file__)))


def mut_table():
    res = json.load(open(os.path.join(HERE, "mutations", "results.json")))
    rows = ["| mutant | file | checks | result |", "|---|---|---|---|"]
    for name, r in res.items():
        if r.get("status") in (None, "anchor-missing"):
            continue
        det = ", ".join(f"{c}{'✓' if v['rc'] == 1 else ('·' if v['rc'] == 0 else '!')}" for c, v in r["checks"].items())
        rows.append(f"| `{name}` | `{r['file'].split('/')[-1]}` | {det} | {r['status']} |")
    return "\n".join(rows)


def seed_table():
    rows = ["| seed | change (agent's summary) | needs | first-wave machinery | checks now (quick) |", "|---|---|---|---|---|"]
    for d in sorted(glob.glob(os.path.join(HERE, "seeded", "*"))):
        sid = os.path.basename(d)
        try:
            m = json.load(open(os.path.join(d, "meta.json")))
        except Exception:
            continue
        c = m.get("confirmed_by_main")
        if not c:
            continue
        chk = ", ".join(f"{k}{'✓' if v.startswith('VIOL') else '·'}" for k, v in c["checks_quick_tier"].items())
        summ = str(m.get("summary") or "")[:260].replace("\n", " ").replace("|", "/")
        needs = str(m.get("needs") or "")[:220].replace("\n", " ").replace("|", "/")
        fw = c.get("first_wave_short", "caught")
        rows.append(f"| {sid} | {summ} | {needs} | {fw} | {chk} |")
    return "\n".join(rows)


def main():
    p = os.path.join(HERE, "DESIGN.md")
    s = open(p).read()
    for tag, fn in (("MUT_TABLE", mut_table), ("SEED_TABLE", seed_table)):
        s = re.sub(rf"<!-- {tag}_BEGIN -->.*?<!-- {tag}_END -->", f"<!-- {tag}_BEGIN -->\n{fn()}\n<!-- {tag}_END -->", s, flags=re.S)
    open(p, "w").write(s)
    print("tables refreshed")


if __name__ == "__main__":
    main()
