#!/usr/bin/env python3
"""Regenerate /verif/MANIFEST.json from the table below + the check modules that exist. Run after adding a check."""
import json
import os
import subprocess

HERE = os.path.dirname(os.path.dirname(os.path.abspath(__file__)))

import sys
sys.path.insert(0, HERE)
from fv.claims import CLAIMS  # noqa: E402


def main():
    props = [json.loads(l) for l in open(os.path.join(HERE, "properties.jsonl"))]
    checks, na = [], []
    for p in props:
        pid = p["id"]
        modpath = os.path.join(HERE, "fv", "props", pid.lower() + ".py")
        if pid in CLAIMS and os.path.exists(modpath):
            c = CLAIMS[pid]
            cat, ref, text, note, tech = c["category"], c["ref"], c["text"], c["note"], c["technique"]
            checks.append({
                "property_id": pid,
                "quick_cmd": f"./check {pid} --tier quick",
                "thorough_cmd": f"./check {pid} --tier thorough",
                "evidence_file": f"/verif/evidence/{pid}.json",
                "replay_cmd_template": f"./check {pid} --replay {{path}}",
                "engine": "fv",
                "level_claimed": {"category": cat, "text": text, "design_ref": f"DESIGN.md section {ref}"},
                "level_note": note,
                "technique": tech,
            })
        else:
            na.append({"property_id": pid, "reason": NA.get(pid, "check not built yet in this session; see DESIGN.md section 4/" + pid)})
    man = {
        "version": 1,
        "setup_cmd": "./setup.sh",
        "hooks": {
            "guard": "FORMAK_VERIF",
            "enable": "no source hooks: recording stand-in filters are supplied from outside (duck typing / C++ templates); "
                      "./check exports FORMAK_VERIF=1 for uniformity but /repo never reads it",
            "baseline_off_cmd": "/verif/tools/baseline.py",
            "source_commits": [],
            "add_only": True,
        },
        "engines": [
            {"name": "fv", "path": "/verif/fv", "serves_properties": [c["property_id"] for c in checks],
             "kind_free_text": "hand-written bounded exhaustive explorer in Python: program-space enumerator + reference "
                               "interpreter (E1), explicit-state BFS over histories on the real objects (E2), structural "
                               "fault enumerator (E3), C++ conformance harness with a vendored Eigen stand-in (E4), "
                               "hash-seed/declaration-order subprocess matrix (E5)"},
        ],
        "checks": checks,
        "not_applicable": na,
        "notes": "Exit codes: 0 held, 1 VIOLATION line(s), 2 harness error. FORMAK_REPO selects the tree under test (default /repo). "
                 "known_findings.json lists fixed/known defects; replays/ holds one JSON file per reported violation.",
    }
    with open(os.path.join(HERE, "MANIFEST.json"), "w") as f:
        json.dump(man, f, indent=1)
    subprocess.run(["python3-vt", "-c", "import json,jsonschema;jsonschema.validate(json.load(open('%s/MANIFEST.json')),"
                    "json.load(open('/root/.vp/MANIFEST.schema.json')));print('MANIFEST valid: %d checks, %d not_applicable')"
                    % (HERE, len(checks), len(na))], check=True)


NA = {}

if __name__ == "__main__":
    main()
